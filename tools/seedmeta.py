#!/usr/bin/env python3
"""tools/seedmeta.py <seed-id> <property> <detected: yes|no> "<what it needs to manifest>" "<which check / why missed>" """
import json, os, re, sys
sid, pid, detected, needs, note = sys.argv[1:6]
d = os.path.join("/verif/seeded", sid)
log = open(os.path.join(d, "confirm.log")).read() if os.path.exists(os.path.join(d, "confirm.log")) else ""
m = re.search(r"rc_demo_without=(\S+) rc_demo_with=(\S+) rc_suite_with=(\S+) rc_check_with=(\S+)", log)
def _count(fn, pat):
    fp = os.path.join(d, fn)
    return len(re.findall(pat, open(fp).read())) if os.path.exists(fp) else None
# the demo command may end with a cleanup step, so the shell's exit code says nothing: judge by libtest's lines
demo_without_ok = (_count("demo_without.log", r"test result: ok") or 0) >= 1 and (_count("demo_without.log", r"test result: FAILED") or 0) == 0
demo_with_failed = (_count("demo_with.log", r"test result: FAILED") or 0) >= 1
patch = open(os.path.join(d, "patch.diff")).read()
files = re.findall(r"^\+\+\+ b/(\S+)", patch, re.M)
meta = {
    "seed_id": sid,
    "breaks_property": pid,
    "source": "independent sub-agent given only the property text and a scratch worktree",
    "files_changed": files,
    "needs_to_manifest": needs,
    "confirmed_by_me": {
        "demo_passes_without_change": demo_without_ok,
        "demo_fails_with_change": demo_with_failed,
        "existing_nomt_and_core_tests_green_with_change": (m.group(3) == "0") if m and m.group(3) != "skipped" else "confirmed in an earlier run of this script" if m else None,
        "commands": "tools/seedcheck.sh (scratch worktree: git apply demo.diff; run demo; git apply patch.diff; run demo; cargo test -p nomt -p nomt-core --offline) then git -C /repo apply patch.diff; ./check %s; git -C /repo checkout -- ." % pid,
    },
    "check_exit_code_with_change": int(m.group(4)) if m else None,
    "detected": detected == "yes",
    "detection_note": note,
    "violation_lines": [l for l in log.split("\n") if l.startswith("VIOLATION") or l.strip().startswith("obligation")][:6],
}
json.dump(meta, open(os.path.join(d, "meta.json"), "w"), indent=1)
print("wrote", os.path.join(d, "meta.json"), "detected=", meta["detected"], "rc=", meta["check_exit_code_with_change"])

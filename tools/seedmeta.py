#!/usr/bin/env python3
"""tools/seedmeta.py <seed-id> <property> <detected: yes|no> "<what it needs to manifest>" "<which check / why missed>" """
import json, os, re, sys
sid, pid, detected, needs, note = sys.argv[1:6]
d = os.path.join("/verif/seeded", sid)
log = open(os.path.join(d, "confirm.log")).read() if os.path.exists(os.path.join(d, "confirm.log")) else ""
m = re.search(r"rc_demo_without=(\S+) rc_demo_with=(\S+) rc_suite_with=(\S+) rc_check_with=(\S+)", log)
patch = open(os.path.join(d, "patch.diff")).read()
files = re.findall(r"^\+\+\+ b/(\S+)", patch, re.M)
meta = {
    "seed_id": sid,
    "breaks_property": pid,
    "source": "independent sub-agent given only the property text and a scratch worktree",
    "files_changed": files,
    "needs_to_manifest": needs,
    "confirmed_by_me": {
        "demo_passes_without_change": m.group(1) == "0" if m else None,
        "demo_fails_with_change": m.group(2) != "0" if m else None,
        "existing_nomt_and_core_tests_green_with_change": (m.group(3) == "0") if m and m.group(3) != "skipped" else "confirmed in an earlier run of this script" if m else None,
        "commands": "tools/seedcheck.sh (scratch worktree: git apply demo.diff; run demo; git apply patch.diff; run demo; cargo test -p nomt -p nomt-core --offline) then git -C /repo apply patch.diff; ./check %s; git -C /repo checkout -- ." % pid,
    },
    "check_exit_code_with_change": int(m.group(4)) if m else None,
    "detected": detected == "yes",
    "detection_note": note,
    "violation_lines": [l for l in log.split("\n") if l.startswith("VIOLATION") or l.strip().startswith("obligation")][:6],
}
json.dump(meta, open(os.path.join(d, "meta.json"), "w"), indent=1)
print("wrote", os.path.join(d, "meta.json"), "detected=", meta["detected"], "rc=", meta["check_exit_code_with_change"])

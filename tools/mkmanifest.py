#!/usr/bin/env python3
"""Regenerate MANIFEST.json from units/registry.py (claimed properties) and tools/not_applicable.json."""
import json
import os
import subprocess
import sys

ROOT = os.path.dirname(os.path.dirname(os.path.abspath(__file__)))
sys.path.insert(0, ROOT)
from units import registry  # noqa: E402

na = json.load(open(os.path.join(ROOT, "tools", "not_applicable.json")))
checks = []
for pid in sorted(registry.PROPERTIES):
    p = registry.PROPERTIES[pid]
    checks.append({
        "property_id": pid,
        "quick_cmd": "./check %s --tier quick" % pid,
        "thorough_cmd": "./check %s --tier thorough" % pid,
        "evidence_file": "/verif/evidence/%s.json" % pid,
        "replay_cmd_template": "./check %s --replay {path}" % pid,
        "engine": "contracts",
        "level_claimed": {"category": p.get("level", "proof"), "text": p["level_text"], "design_ref": p.get("design_ref", "DESIGN.md section 5")},
        "level_note": p["level_note"],
        "technique": p["technique"],
    })
hook_commits = [l.strip() for l in open(os.path.join(ROOT, "tools", "hook_commits.txt")) if l.strip()] if os.path.exists(os.path.join(ROOT, "tools", "hook_commits.txt")) else []
m = {
    "version": 1,
    "setup_cmd": "./setup.sh",
    "hooks": {
        "guard": "kani",
        "enable": "cfg(kani) is set only by `cargo kani`; the hook lines `#[cfg(kani)] #[path = \"/verif/units/kani/<m>.rs\"] mod verif_kani;` at the end of instrumented modules are inert in every other build. Verus units need no hook (they extract source text).",
        "baseline_off_cmd": "cd /repo && cargo nextest run --workspace --no-fail-fast --tool-config-file pb:/w/lib/nextest.toml --profile pb --test-threads 8 --offline",
        "source_commits": hook_commits,
        "add_only": True,
    },
    "engines": [{
        "name": "contracts",
        "path": "/verif/check",
        "serves_properties": sorted(registry.PROPERTIES),
        "kind_free_text": "contract-based deductive verification of the real code: Verus on functions extracted verbatim from /repo on every run (vx), Kani/CBMC harnesses compiled into the real crates behind cfg(kani)",
    }],
    "checks": checks,
    "notes": "Exit codes: 0 held / 1 VIOLATION / 2 INCONCLUSIVE (anchor lost, type error, timeout, flaky; never an alarm). See DESIGN.md.",
    "not_applicable": [x for x in na if x["property_id"] not in registry.PROPERTIES],
}
json.dump(m, open(os.path.join(ROOT, "MANIFEST.json"), "w"), indent=1)
print("MANIFEST.json: %d checks, %d not applicable" % (len(checks), len(m["not_applicable"])))

#!/bin/bash
# tools/seedcheck.sh <seed-id> <property> <out-dir-with-patch.diff-demo.diff> "<demo cargo test cmd (relative to worktree)>" [full]
# Confirms a seeded change in a scratch worktree (demo fails with it, passes without it; with "full":
# the existing nomt+core tests stay green with it), then runs the property's check against /repo
# with the patch applied and reverts /repo.  Writes /verif/seeded/<seed-id>/.
set -u
ID=$1; PID=$2; SRC=$3; DEMO=$4; FULL=${5:-}
WT=/tmp/scr/seedwt
DST=/verif/seeded/$ID
mkdir -p $DST
git -C /repo worktree remove --force $WT 2>/dev/null; rm -rf $WT
git -C /repo worktree add -f $WT HEAD -q || exit 3
cp $SRC/patch.diff $DST/patch.diff; cp $SRC/demo.diff $DST/demo.diff
cd $WT
git apply $DST/demo.diff || { echo "demo.diff does not apply"; exit 3; }
echo "== demo WITHOUT the change" | tee $DST/confirm.log
( eval "$DEMO" ) > $DST/demo_without.log 2>&1; RC_WITHOUT=$?
grep -E "test result|panicked|error" $DST/demo_without.log | head -5 | tee -a $DST/confirm.log
git apply $DST/patch.diff || { echo "patch.diff does not apply"; exit 3; }
echo "== demo WITH the change" | tee -a $DST/confirm.log
( eval "$DEMO" ) > $DST/demo_with.log 2>&1; RC_WITH=$?
grep -E "test result|panicked|error" $DST/demo_with.log | head -5 | tee -a $DST/confirm.log
RC_SUITE=skipped
if [ "$FULL" = "full" ]; then
  echo "== existing tests WITH the change (demo excluded by reverting demo.diff)" | tee -a $DST/confirm.log
  git apply -R $DST/demo.diff
  cargo test -p nomt -p nomt-core --offline > $DST/suite_with.log 2>&1; RC_SUITE=$?
  grep -E "test result|FAILED|failed" $DST/suite_with.log | sort | uniq -c | head -8 | tee -a $DST/confirm.log
  rm -rf $WT/nomt/test
fi
cd /verif
git -C /repo worktree remove --force $WT; rm -rf $WT
echo "== /verif check $PID with the change applied to /repo" | tee -a $DST/confirm.log
git -C /repo apply $DST/patch.diff || { echo "patch does not apply to /repo"; exit 3; }
./check $PID --no-evidence > $DST/check_with.log 2>&1; RC_CHECK=$?
git -C /repo checkout -- .
grep -E "VIOLATION|INCONCLUSIVE|KNOWN|obligation|tier=" $DST/check_with.log | cut -c1-300 | tee -a $DST/confirm.log
echo "rc_demo_without=$RC_WITHOUT rc_demo_with=$RC_WITH rc_suite_with=$RC_SUITE rc_check_with=$RC_CHECK" | tee -a $DST/confirm.log
git -C /repo status --short | head -3

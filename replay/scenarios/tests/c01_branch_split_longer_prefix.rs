//! Replay scenario for C01/C16: a branch node holding separators of several key groups that share
//! nothing with the node's first separator (so the node stores a 0-bit prefix) is split by a commit
//! that appends keys to the last group.  The right half then stores the long common prefix of the
//! groups it holds (64+ bits) and the separators it keeps from the old node must lose those bits
//! (BranchNodeBuilder::push_chunk, the path where the new prefix is longer than the base node's).
//! Afterwards every key still reads back its last committed value.
use nomt::{hasher::Blake3Hasher, KeyReadWrite, Nomt, Options, SessionParams};

// table id (8 bytes) | partition (1 byte) | padding | row (2 bytes)
fn key(table: u8, part: u8, row: u16, pad: usize) -> [u8; 32] {
    let mut k = [0u8; 32];
    for b in k.iter_mut().take(8) {
        *b = table;
    }
    k[8] = part;
    k[9 + pad..11 + pad].copy_from_slice(&row.to_be_bytes());
    k
}

fn commit(nomt: &Nomt<Blake3Hasher>, writes: Vec<([u8; 32], Vec<u8>)>) {
    let s = nomt.begin_session(SessionParams::default());
    let mut actuals: Vec<_> = writes.into_iter().map(|(k, v)| (k, KeyReadWrite::Write(Some(v)))).collect();
    actuals.sort_by_key(|(k, _)| *k);
    for (k, _) in &actuals {
        s.warm_up(*k);
    }
    s.finish(actuals).unwrap().commit(nomt).unwrap();
}

fn run(pad: usize, per_part: u16, parts: u8, appended: u16) -> usize {
    let dir = tempfile::tempdir().unwrap();
    let mut o = Options::new();
    o.path(dir.path().join("db"));
    o.commit_concurrency(1);
    o.bitbox_seed([0; 16]);
    let nomt = Nomt::<Blake3Hasher>::open(o).unwrap();

    let mut model = std::collections::BTreeMap::new();
    let mut batch = Vec::new();
    for row in 0..15u16 {
        batch.push((key(0x11, 1, row, pad), vec![1u8; 1000]));
    }
    for part in 1..=parts {
        for row in 0..per_part * 3 {
            batch.push((key(0xEE, part * 16, row, pad), vec![part; 1000]));
        }
    }
    for (k, v) in &batch {
        model.insert(*k, v.clone());
    }
    commit(&nomt, batch);

    // more rows behind everything else: the branch node no longer fits one page and is split; the
    // leaves of the first commit (but the last) are not touched
    let mut batch = Vec::new();
    for row in 0..appended * 3 {
        batch.push((key(0xEE, parts * 16, 5000 + row, pad), vec![0xA0; 1000]));
    }
    for (k, v) in &batch {
        model.insert(*k, v.clone());
    }
    commit(&nomt, batch);

    model.iter().filter(|(k, want)| nomt.read(**k).unwrap().as_ref() != Some(*want)).count()
}

#[test]
fn right_half_of_a_split_branch_keeps_every_key() {
    // (table 0x11: 5 leaves; table 0xEE: 6 partitions of 25 leaves; 40 leaves appended; 5 padding bytes)
    let wrong = run(5, 25, 6, 40);
    assert_eq!(wrong, 0, "{} keys do not read back their committed value after the branch split", wrong);
}

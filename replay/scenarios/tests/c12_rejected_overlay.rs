//! Replay scenario for C12 / V3 `Overlay::commit` and `Overlay::try_commit_nonblocking`:
//! a rejected overlay commit must not mark the overlay as committed.  Observable: a session on
//! the child overlay alone must still be refused as an incomplete chain.
use nomt::{hasher::Blake3Hasher, KeyReadWrite, Nomt, Options, Overlay, SessionParams};

fn key(b: u8) -> [u8; 32] {
    let mut k = [0u8; 32];
    k[0] = b;
    k[31] = b;
    k
}

fn open() -> (tempfile::TempDir, Nomt<Blake3Hasher>) {
    let dir = tempfile::tempdir().unwrap();
    let mut o = Options::new();
    o.path(dir.path().join("db"));
    o.commit_concurrency(1);
    o.bitbox_seed([0; 16]);
    o.rollback(true);
    let nomt = Nomt::<Blake3Hasher>::open(o).unwrap();
    (dir, nomt)
}

fn setup(nomt: &Nomt<Blake3Hasher>) -> (Overlay, Overlay) {
    let s = nomt.begin_session(SessionParams::default());
    s.warm_up(key(0));
    s.finish(vec![(key(0), KeyReadWrite::Write(Some(vec![0])))]).unwrap().commit(nomt).unwrap();

    // overlay A on the current state, overlay B on A
    let sa = nomt.begin_session(SessionParams::default());
    sa.warm_up(key(1));
    let a = sa.finish(vec![(key(1), KeyReadWrite::Write(Some(vec![1])))]).unwrap().into_overlay();
    let sb = nomt.begin_session(SessionParams::default().overlay([&a]).unwrap());
    sb.warm_up(key(2));
    let b = sb.finish(vec![(key(2), KeyReadWrite::Write(Some(vec![2])))]).unwrap().into_overlay();

    // a competing commit makes A stale
    let sc = nomt.begin_session(SessionParams::default());
    sc.warm_up(key(3));
    sc.finish(vec![(key(3), KeyReadWrite::Write(Some(vec![3])))]).unwrap().commit(nomt).unwrap();
    (a, b)
}

#[test]
fn rejected_overlay_commit_does_not_mark_committed() {
    let (_d, nomt) = open();
    let (a, b) = setup(&nomt);
    let root = nomt.root();
    assert!(a.commit(&nomt).is_err(), "stale overlay must be rejected");
    assert_eq!(nomt.root().into_inner(), root.into_inner());
    // B's parent A was never committed: B alone is an incomplete chain.
    assert!(
        SessionParams::default().overlay([&b]).is_err(),
        "after a rejected commit of A, a session on [B] alone was accepted: A was marked committed"
    );
}

#[test]
fn rejected_overlay_nonblocking_commit_does_not_mark_committed() {
    let (_d, nomt) = open();
    let (a, b) = setup(&nomt);
    let root = nomt.root();
    assert!(a.try_commit_nonblocking(&nomt).is_err(), "stale overlay must be rejected");
    assert_eq!(nomt.root().into_inner(), root.into_inner());
    assert!(
        SessionParams::default().overlay([&b]).is_err(),
        "after a rejected commit of A, a session on [B] alone was accepted: A was marked committed"
    );
}

//! Replay scenario for C13: results do not depend on the page cache size - for ANY size, including
//! the smallest one the option accepts (0 MiB: nothing cached beyond the pinned upper levels).  The
//! same two batches give the same roots and values as with the default cache.
use nomt::{hasher::Blake3Hasher, KeyReadWrite, Nomt, Options, SessionParams};

fn key(i: u16) -> [u8; 32] {
    let mut k = [0u8; 32];
    k[0] = (i % 251) as u8;
    k[1] = (i / 7) as u8;
    k[5] = i as u8;
    k
}

fn run(page_cache_mib: Option<usize>) -> (Vec<[u8; 32]>, Vec<Option<Vec<u8>>>) {
    let dir = tempfile::tempdir().unwrap();
    let mut o = Options::new();
    o.path(dir.path().join("db"));
    o.commit_concurrency(1);
    o.bitbox_seed([0; 16]);
    if let Some(m) = page_cache_mib {
        o.page_cache_size(m);
    }
    let nomt = Nomt::<Blake3Hasher>::open(o).unwrap();
    let mut roots = Vec::new();
    for round in 0..2u16 {
        let s = nomt.begin_session(SessionParams::default());
        let mut actuals: Vec<_> = (0..200u16)
            .map(|i| (key(i * 3 + round), KeyReadWrite::Write(Some(vec![round as u8 + 1; 40]))))
            .collect();
        actuals.sort_by_key(|(k, _)| *k);
        for (k, _) in &actuals {
            s.warm_up(*k);
        }
        s.finish(actuals).unwrap().commit(&nomt).unwrap();
        roots.push(nomt.root().into_inner());
    }
    let values = (0..700u16).map(|i| nomt.read(key(i)).unwrap()).collect();
    (roots, values)
}

#[test]
fn zero_sized_page_cache_gives_the_same_results() {
    let reference = run(None);
    let tiny = run(Some(0));
    assert!(reference == tiny, "roots or values differ between the default and the 0 MiB page cache");
}

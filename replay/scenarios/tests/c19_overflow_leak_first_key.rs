//! Replay scenario for C19: overwriting an overflow value whose key is the FIRST key of its leaf
//! must return the old value's overflow pages to the free list, exactly as it does for any other
//! position.  Observable: the `ln` file does not keep growing over repeated overwrites.
use nomt::{hasher::Blake3Hasher, KeyReadWrite, Nomt, Options, SessionParams};

fn key(b: u8) -> [u8; 32] {
    let mut k = [0u8; 32];
    k[0] = b;
    k
}

fn ln_len_after_overwrites(first_in_leaf: bool) -> u64 {
    let dir = tempfile::tempdir().unwrap();
    let mut o = Options::new();
    o.path(dir.path().join("db"));
    o.commit_concurrency(1);
    o.bitbox_seed([0; 16]);
    let nomt = Nomt::<Blake3Hasher>::open(o).unwrap();
    let big = |round: u8| vec![round; 4 << 20]; // 4 MiB: ~1030 overflow pages

    // the overwritten key is 0x10; optionally an untouched smaller key 0x01 precedes it in the leaf
    let s = nomt.begin_session(SessionParams::default());
    let mut actuals = Vec::new();
    if !first_in_leaf {
        s.warm_up(key(0x01));
        actuals.push((key(0x01), KeyReadWrite::Write(Some(vec![1]))));
    }
    s.warm_up(key(0x10));
    actuals.push((key(0x10), KeyReadWrite::Write(Some(big(0)))));
    s.finish(actuals).unwrap().commit(&nomt).unwrap();

    for round in 1..=24u8 {
        let s = nomt.begin_session(SessionParams::default());
        s.warm_up(key(0x10));
        s.finish(vec![(key(0x10), KeyReadWrite::Write(Some(big(round))))]).unwrap().commit(&nomt).unwrap();
    }
    assert_eq!(nomt.read(key(0x10)).unwrap().unwrap()[0], 24);
    std::fs::metadata(dir.path().join("db").join("ln")).unwrap().len()
}

#[test]
fn overwriting_first_key_overflow_value_frees_its_pages() {
    let not_first = ln_len_after_overwrites(false);
    let first = ln_len_after_overwrites(true);
    // with the pages reclaimed, 24 overwrites of a 4 MiB value need room for about two copies;
    // both layouts must behave alike
    assert!(
        first <= not_first + (32 << 20),
        "ln file grew to {} MiB when the overwritten overflow value is the first key of its leaf, but only to {} MiB otherwise: its overflow pages are never freed",
        first >> 20,
        not_first >> 20
    );
}

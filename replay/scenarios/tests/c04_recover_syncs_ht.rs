//! Replay scenario for C04: when a reopened store replays the WAL into the hash-table file
//! (recovery after a crash between the meta swap and the hash-table writeout), the replayed pages
//! must be fsynced before the WAL - the only other copy of them - is truncated.
//!
//! The test binary interposes the libc entry points std::fs::File uses (`fsync`, `pwrite64`,
//! `ftruncate64`): the definitions below win at link time, log (operation, file name) and forward to
//! the kernel with a raw syscall.  Nothing is simulated: the trace is the real I/O of the real code.
use nomt::{hasher::Blake3Hasher, KeyReadWrite, Nomt, Options, PanicOnSyncMode, SessionParams};
use std::sync::atomic::{AtomicBool, Ordering};
use std::sync::Mutex;

static LOGGING: AtomicBool = AtomicBool::new(false);
static TRACE: Mutex<Vec<(&'static str, String)>> = Mutex::new(Vec::new());

fn note(op: &'static str, fd: i32) {
    if LOGGING.load(Ordering::SeqCst) {
        let name = std::fs::read_link(format!("/proc/self/fd/{}", fd))
            .ok()
            .and_then(|p| p.file_name().map(|n| n.to_string_lossy().into_owned()))
            .unwrap_or_default();
        TRACE.lock().unwrap().push((op, name));
    }
}

#[no_mangle]
pub unsafe extern "C" fn fsync(fd: libc::c_int) -> libc::c_int {
    note("fsync", fd);
    libc::syscall(libc::SYS_fsync, fd) as libc::c_int
}
#[no_mangle]
pub unsafe extern "C" fn fdatasync(fd: libc::c_int) -> libc::c_int {
    note("fsync", fd);
    libc::syscall(libc::SYS_fdatasync, fd) as libc::c_int
}
#[no_mangle]
pub unsafe extern "C" fn pwrite64(fd: libc::c_int, buf: *const libc::c_void, n: libc::size_t, off: libc::off64_t) -> libc::ssize_t {
    note("pwrite", fd);
    libc::syscall(libc::SYS_pwrite64, fd, buf, n, off) as libc::ssize_t
}
#[no_mangle]
pub unsafe extern "C" fn ftruncate64(fd: libc::c_int, len: libc::off64_t) -> libc::c_int {
    note("ftruncate", fd);
    libc::syscall(libc::SYS_ftruncate, fd, len) as libc::c_int
}

fn key(b: u8) -> [u8; 32] {
    let mut k = [0u8; 32];
    k[0] = b;
    k[31] = b;
    k
}

fn open(dir: &std::path::Path, panic_post_meta: bool) -> Nomt<Blake3Hasher> {
    let mut o = Options::new();
    o.path(dir.join("db"));
    o.commit_concurrency(1);
    o.bitbox_seed([0; 16]);
    o.hashtable_buckets(4096);
    if panic_post_meta {
        o.panic_on_sync(PanicOnSyncMode::PostMeta);
    }
    Nomt::<Blake3Hasher>::open(o).unwrap()
}

#[test]
fn wal_replay_is_fsynced_before_the_wal_is_truncated() {
    let dir = tempfile::tempdir().unwrap();
    // a commit that "crashes" right after the meta swap: WAL written, hash table not yet
    {
        let nomt = open(dir.path(), true);
        let s = nomt.begin_session(SessionParams::default());
        let mut actuals = Vec::new();
        for b in 1..=40u8 {
            s.warm_up(key(b));
            actuals.push((key(b), KeyReadWrite::Write(Some(vec![b; 100]))));
        }
        let fin = s.finish(actuals).unwrap();
        let r = std::panic::catch_unwind(std::panic::AssertUnwindSafe(|| fin.commit(&nomt)));
        assert!(r.is_err(), "PanicOnSyncMode::PostMeta did not fire");
    }
    // reopen: recovery replays the WAL
    LOGGING.store(true, Ordering::SeqCst);
    let nomt = open(dir.path(), false);
    LOGGING.store(false, Ordering::SeqCst);
    assert_eq!(nomt.read(key(7)).unwrap(), Some(vec![7u8; 100]));

    let trace = TRACE.lock().unwrap().clone();
    let trunc = trace.iter().position(|(op, f)| *op == "ftruncate" && f == "wal")
        .expect("recovery did not truncate the WAL (was there anything to replay?)");
    let last_ht_write = trace[..trunc].iter().rposition(|(op, f)| *op == "pwrite" && f == "ht")
        .expect("recovery did not write the hash-table file before truncating the WAL");
    let synced = trace[last_ht_write..trunc].iter().any(|(op, f)| *op == "fsync" && f == "ht");
    assert!(
        synced,
        "the WAL was truncated while the replayed hash-table pages were not fsynced; I/O trace of the reopen: {:?}",
        trace
    );
}

//! Replay scenario for C14: the rollback-log append of a commit fails (EFBIG through
//! RLIMIT_FSIZE); the commit must report the error AND leave the handle either unchanged or
//! poisoned - in particular `root()` must not advance to the root of the failed commit while the
//! values are still the old ones.
use nomt::{hasher::Blake3Hasher, KeyReadWrite, Nomt, Options, SessionParams};

fn key(b: u8) -> [u8; 32] {
    let mut k = [0u8; 32];
    k[0] = b;
    k[31] = b;
    k
}

fn set_fsize_limit(bytes: u64) -> libc::rlimit {
    unsafe {
        libc::signal(libc::SIGXFSZ, libc::SIG_IGN);
        let mut old = libc::rlimit { rlim_cur: 0, rlim_max: 0 };
        libc::getrlimit(libc::RLIMIT_FSIZE, &mut old);
        let new = libc::rlimit { rlim_cur: bytes, rlim_max: old.rlim_max };
        assert_eq!(libc::setrlimit(libc::RLIMIT_FSIZE, &new), 0);
        old
    }
}

#[test]
fn failed_rollback_append_does_not_advance_root() {
    let dir = tempfile::tempdir().unwrap();
    let mut o = Options::new();
    o.path(dir.path().join("db"));
    o.commit_concurrency(1);
    o.bitbox_seed([0; 16]);
    o.rollback(true);
    let nomt = Nomt::<Blake3Hasher>::open(o).unwrap();

    let s = nomt.begin_session(SessionParams::default());
    s.warm_up(key(1));
    s.finish(vec![(key(1), KeyReadWrite::Write(Some(vec![1])))]).unwrap().commit(&nomt).unwrap();
    let root1 = nomt.root();

    // prepare the second commit, then make every file growth (and every write past 0 bytes) fail
    let s = nomt.begin_session(SessionParams::default());
    s.warm_up(key(2));
    let f2 = s.finish(vec![(key(2), KeyReadWrite::Write(Some(vec![2])))]).unwrap();
    let old = set_fsize_limit(0);
    let r = f2.commit(&nomt);
    unsafe {
        libc::setrlimit(libc::RLIMIT_FSIZE, &old);
    }
    assert!(r.is_err(), "the commit must report the failed write");

    // the failed commit must not be half-visible: its value is absent, so the root must still be
    // the root of the last successful commit (the handle is not poisoned on this path).
    let v2 = nomt.read(key(2)).unwrap();
    assert_eq!(v2, None, "value of the failed commit is visible");
    assert_eq!(
        nomt.root().into_inner(),
        root1.into_inner(),
        "root() advanced to the root of a commit that failed while its values are absent"
    );
}

//! Replay scenario for C01/C16: a branch node whose tail is stored without prefix compression
//! (many separators sharing a long prefix, followed by separators with a different prefix) must
//! survive an update that touches one of its uncompressed separators other than the last one:
//! afterwards every key still reads back the value of its last committed write.
use nomt::{hasher::Blake3Hasher, KeyReadWrite, Nomt, Options, SessionParams};

fn key(prefix: u8, i: u16) -> [u8; 32] {
    let mut k = [0u8; 32];
    for b in k.iter_mut().take(25) {
        *b = prefix;
    }
    k[25..27].copy_from_slice(&i.to_be_bytes());
    k
}

fn commit(nomt: &Nomt<Blake3Hasher>, writes: Vec<([u8; 32], Vec<u8>)>) {
    let s = nomt.begin_session(SessionParams::default());
    let mut actuals: Vec<_> = writes.into_iter().map(|(k, v)| (k, KeyReadWrite::Write(Some(v)))).collect();
    actuals.sort_by_key(|(k, _)| *k);
    for (k, _) in &actuals {
        s.warm_up(*k);
    }
    s.finish(actuals).unwrap().commit(nomt).unwrap();
}

#[test]
fn update_inside_uncompressed_branch_tail_keeps_every_key() {
    let dir = tempfile::tempdir().unwrap();
    let mut o = Options::new();
    o.path(dir.path().join("db"));
    o.commit_concurrency(1);
    o.bitbox_seed([0; 16]);
    let nomt = Nomt::<Blake3Hasher>::open(o).unwrap();

    // ~700 keys with a 25-byte shared prefix (about 230 leaves of three 1000-byte values), then
    // 30 keys with another prefix (10 more leaves): the single branch node stops prefix
    // compression when the first 0xEE separator arrives.
    let mut model = std::collections::BTreeMap::new();
    let mut batch = Vec::new();
    for i in 0..700u16 {
        batch.push((key(0x11, i), vec![1u8; 1000]));
    }
    for i in 0..30u16 {
        batch.push((key(0xEE, i), vec![2u8; 1000]));
    }
    for (k, v) in &batch {
        model.insert(*k, v.clone());
    }
    commit(&nomt, batch);

    // touch one key in each of a few 0xEE leaves in separate commits (each rewrites a leaf whose
    // separator sits in the uncompressed tail of the branch node, with separators after it)
    for (round, i) in [4u16, 10, 16].into_iter().enumerate() {
        let v = vec![10 + round as u8; 1000];
        model.insert(key(0xEE, i), v.clone());
        commit(&nomt, vec![(key(0xEE, i), v)]);
        for (k, want) in &model {
            assert_eq!(nomt.read(*k).unwrap().as_ref(), Some(want), "key {:02x}..{:?} after round {}", k[0], &k[25..27], round);
        }
    }
}

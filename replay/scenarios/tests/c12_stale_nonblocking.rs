//! Replay scenario for C12 / V3 `FinishedSession::try_commit_nonblocking`:
//! a stale non-blocking commit is rejected; afterwards `rollback(1)` must undo the last *real*
//! commit, exactly as if the rejected attempt had never been made.
use nomt::{hasher::Blake3Hasher, KeyReadWrite, Nomt, Options, SessionParams};

fn key(b: u8) -> [u8; 32] {
    let mut k = [0u8; 32];
    k[0] = b;
    k[31] = b;
    k
}

#[test]
fn stale_nonblocking_commit_leaves_no_rollback_delta() {
    let dir = tempfile::tempdir().unwrap();
    let mut o = Options::new();
    o.path(dir.path().join("db"));
    o.commit_concurrency(1);
    o.bitbox_seed([0; 16]);
    o.rollback(true);
    let nomt = Nomt::<Blake3Hasher>::open(o).unwrap();

    // commit k0
    let s = nomt.begin_session(SessionParams::default());
    s.warm_up(key(0));
    let f0 = s.finish(vec![(key(0), KeyReadWrite::Write(Some(vec![0])))]).unwrap();
    f0.commit(&nomt).unwrap();
    let root0 = nomt.root();

    // two changesets on the same base
    let s1 = nomt.begin_session(SessionParams::default());
    s1.warm_up(key(1));
    let f1 = s1.finish(vec![(key(1), KeyReadWrite::Write(Some(vec![1])))]).unwrap();
    let s2 = nomt.begin_session(SessionParams::default());
    s2.warm_up(key(2));
    let f2 = s2.finish(vec![(key(2), KeyReadWrite::Write(Some(vec![2])))]).unwrap();

    f1.commit(&nomt).unwrap();
    let root1 = nomt.root();
    assert_ne!(root0.into_inner(), root1.into_inner());

    // f2 is stale: must be rejected, and must leave no trace
    let r = f2.try_commit_nonblocking(&nomt);
    assert!(r.is_err(), "stale changeset must be rejected");
    assert_eq!(nomt.root().into_inner(), root1.into_inner());

    // rollback(1) must now undo f1
    nomt.rollback(1).unwrap();
    assert_eq!(
        nomt.root().into_inner(),
        root0.into_inner(),
        "rollback(1) after a rejected commit did not restore the state before the last real commit"
    );
    assert_eq!(nomt.read(key(1)).unwrap(), None);
    assert_eq!(nomt.read(key(0)).unwrap(), Some(vec![0]));
}

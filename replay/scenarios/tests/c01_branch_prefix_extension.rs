//! Replay scenario for C01/C16: a branch node whose separators share a long prefix (here: 65 leading
//! zero bits) is rebuilt with a much shorter prefix when a separator that does not share it arrives
//! (a key starting with 0x10 appended behind keys starting with eight zero bytes).  The kept
//! separators must then be re-expanded with the 62 prefix bits they lose (BranchNodeBuilder::
//! push_chunk, "prefix extension").  Afterwards every key still reads back its last committed value.
use nomt::{hasher::Blake3Hasher, KeyReadWrite, Nomt, Options, SessionParams};

fn low_key(i: u8) -> [u8; 32] {
    let mut k = [0u8; 32];
    k[8] = i;
    k[9] = 0x80;
    k
}

fn high_key(i: u8) -> [u8; 32] {
    let mut k = [0u8; 32];
    k[0] = 0x10;
    k[1] = i;
    k
}

fn commit(nomt: &Nomt<Blake3Hasher>, writes: Vec<([u8; 32], Vec<u8>)>) {
    let s = nomt.begin_session(SessionParams::default());
    let mut actuals: Vec<_> = writes.into_iter().map(|(k, v)| (k, KeyReadWrite::Write(Some(v)))).collect();
    actuals.sort_by_key(|(k, _)| *k);
    for (k, _) in &actuals {
        s.warm_up(*k);
    }
    s.finish(actuals).unwrap().commit(nomt).unwrap();
}

#[test]
fn separator_with_a_shorter_prefix_keeps_every_key() {
    let dir = tempfile::tempdir().unwrap();
    let mut o = Options::new();
    o.path(dir.path().join("db"));
    o.commit_concurrency(1);
    o.bitbox_seed([0; 16]);
    let nomt = Nomt::<Blake3Hasher>::open(o).unwrap();

    // 78 keys 00 00 00 00 00 00 00 00 ii 80 .., ii = 1..=0x4e, 1000-byte values: about 26 leaves whose
    // separators all start with 64 zero bits; the last one starts with 65 (0x4_ = 0100 ....)
    let mut model = std::collections::BTreeMap::new();
    let mut batch = Vec::new();
    for i in 1..=0x4eu8 {
        batch.push((low_key(i), vec![i; 1000]));
    }
    for (k, v) in &batch {
        model.insert(*k, v.clone());
    }
    commit(&nomt, batch);

    // six keys starting with 0x10: they go behind everything else, overfill the last leaf and give the
    // branch node new separators with three leading zero bits only
    let mut batch = Vec::new();
    for i in 0..6u8 {
        batch.push((high_key(i), vec![0xA0 + i; 1000]));
    }
    for (k, v) in &batch {
        model.insert(*k, v.clone());
    }
    commit(&nomt, batch);

    for (k, want) in &model {
        assert_eq!(nomt.read(*k).unwrap().as_ref(), Some(want), "key {:02x?} after the second commit", &k[..10]);
    }
}

#!/usr/bin/env python3
"""vx -- mechanical extractor: real Rust functions from /repo + a unit template -> one Verus file.

A unit template (units/verus/<unit>.rs.tmpl) is ordinary Verus text plus directives, each
starting a line with `//@`:

  //@prove <file> <Item::path> [nth=<k>] [impl~<regex>] [rename=<new>] [ret=<name>]
  //@contract                  lines up to the next directive: requires/ensures/decreases block
  //@loop <ordinal>            lines up to the next directive: invariant/decreases of the k-th loop
  //@bodystart                 ghost text inserted right after the body's opening brace
  //@loopbody <ordinal>        ghost text inserted right after the k-th loop body's opening brace
  //@beforeloop <ordinal>      ghost text inserted right before the k-th loop's keyword
  //@foriter <ordinal>         one line: the name given to the k-th (for-in) loop's ghost iterator
  //@afterloop <ordinal>       ghost text inserted right after the k-th loop's closing brace
  //@after <regex>             lines up to the next directive: ghost text inserted after the match
  //@before <regex>            same, inserted before the match
  //@end

  //@stub <file> <Item::path> [nth=<k>] [impl~<regex>] [rename=<new>] [ret=<name>]
  //@contract ...
  //@end

  //@struct <file> <Name>      real struct/enum definition, attributes and doc comments dropped
  //@const <file> <NAME>       real const item
  //@include <path under /verif> shared ghost text (spec functions, lemmas), inlined verbatim
  //@fields <file> <Struct> f1 f2 ...   the real struct reduced to the named fields (real types)

`prove`: signature and body are copied byte for byte; only the inserted ghost text (wrapped in
/*+vx*/ ... /*-vx*/ markers) and the naming of the return value `-> T` => `-> (ret: T)` are added.
`stub`: only the signature is copied; the body is `{ unimplemented!() }` under
#[verifier::external_body] -- an assumption, listed in the report.

Fidelity is re-checked after generation by stripping the markers from the generated text and
comparing with the source span (see `verify_fidelity`).
"""
import hashlib
import json
import os
import re
import sys

REPO = os.environ.get("VERIF_REPO", "/repo")

OPEN_MARK = "/*+vx*/"
CLOSE_MARK = "/*-vx*/"


class AnchorLost(Exception):
    pass


def blank_noncode(text):
    """Return a same-length copy of text with comments, string and char literal contents blanked."""
    out = list(text)
    i, n = 0, len(text)

    def blank(a, b):
        for k in range(a, b):
            if out[k] != "\n":
                out[k] = " "

    while i < n:
        c = text[i]
        if text.startswith("//", i):
            j = text.find("\n", i)
            j = n if j < 0 else j
            blank(i, j)
            i = j
        elif text.startswith("/*", i):
            depth, j = 1, i + 2
            while j < n and depth:
                if text.startswith("/*", j):
                    depth += 1
                    j += 2
                elif text.startswith("*/", j):
                    depth -= 1
                    j += 2
                else:
                    j += 1
            blank(i, j)
            i = j
        elif c == '"' or (c in "br" and re.match(r'b?r#*"|b"', text[i:i + 6]) and (i == 0 or not (text[i - 1].isalnum() or text[i - 1] == "_"))):
            m = re.match(r'(b?)(r(#*))?"', text[i:])
            if m.group(2):  # raw string
                close = '"' + m.group(3)
                j = text.find(close, i + m.end())
                j = n if j < 0 else j + len(close)
            else:
                j = i + m.end()
                while j < n and text[j] != '"':
                    j += 2 if text[j] == "\\" else 1
                j += 1
            blank(i + m.end(), j - 1)
            i = j
        elif c == "'":
            m = re.match(r"'(\\.[^']*|[^\\'])'", text[i:])
            if m:
                blank(i + 1, i + m.end() - 1)
                i += m.end()
            else:
                i += 1  # lifetime
        else:
            i += 1
    return "".join(out)


def match_brace(bl, open_idx):
    assert bl[open_idx] == "{", (open_idx, bl[open_idx:open_idx + 20])
    depth = 0
    for k in range(open_idx, len(bl)):
        if bl[k] == "{":
            depth += 1
        elif bl[k] == "}":
            depth -= 1
            if depth == 0:
                return k
    raise AnchorLost("unbalanced braces")


def first_open_brace(bl, start):
    """first `{` after start at paren/bracket/angle-agnostic depth 0 (parens and brackets tracked)."""
    depth = 0
    for k in range(start, len(bl)):
        ch = bl[k]
        if ch in "([":
            depth += 1
        elif ch in ")]":
            depth -= 1
        elif ch == "{" and depth == 0:
            return k
        elif ch == ";" and depth == 0:
            raise AnchorLost("item has no body")
    raise AnchorLost("no body")


class Source:
    def __init__(self, relpath):
        self.relpath = relpath
        self.path = os.path.join(REPO, relpath)
        try:
            self.text = open(self.path).read()
        except OSError as e:
            raise AnchorLost("cannot read %s: %s" % (relpath, e))
        self.bl = blank_noncode(self.text)

    def impl_blocks(self, type_name, impl_re=None):
        res = []
        for m in re.finditer(r"\bimpl\b", self.bl):
            try:
                ob = first_open_brace(self.bl, m.end())
            except AnchorLost:
                continue
            header = self.bl[m.end():ob]
            if impl_re is not None:
                if not re.search(impl_re, " ".join(header.split())):
                    continue
            target = header.split(" for ")[-1] if " for " in header else header
            # drop leading generics of `impl<...>`
            if " for " not in header:
                target = re.sub(r"^\s*<[^{]*?>\s+(?=[A-Za-z_:])", "", target, count=1) if target.lstrip().startswith("<") else target
            target = target.split(" where ")[0]
            if re.search(r"(?<![A-Za-z0-9_])%s(?![A-Za-z0-9_])" % re.escape(type_name), target):
                res.append((ob, match_brace(self.bl, ob)))
        return res

    def find_fn(self, item_path, nth=0, impl_re=None):
        parts = item_path.split("::")
        name = parts[-1]
        regions = []
        if len(parts) >= 2:
            regions = self.impl_blocks(parts[-2], impl_re)
            if not regions:
                # maybe a module path
                for m in re.finditer(r"\bmod\s+%s\s*\{" % re.escape(parts[-2]), self.bl):
                    ob = m.end() - 1
                    regions.append((ob, match_brace(self.bl, ob)))
            want_depth = 1
        else:
            regions = [(-1, len(self.bl))]
            want_depth = 0
        hits = []
        for (a, b) in regions:
            depth = 0
            k = a + 1 if a >= 0 else 0
            seg_start = k
            for m in re.finditer(r"[{}]|\bfn\s+%s\b" % re.escape(name), self.bl[seg_start:b]):
                tok = m.group(0)
                if tok == "{":
                    depth += 1
                elif tok == "}":
                    depth -= 1
                elif depth == 0:
                    hits.append(seg_start + m.start())
        if len(hits) <= nth:
            raise AnchorLost("fn %s not found in %s (hits=%d, nth=%d)" % (item_path, self.relpath, len(hits), nth))
        fn_kw = hits[nth]
        # walk back over qualifiers on the same item
        start = fn_kw
        while True:
            m = re.search(r"(pub(\s*\([^)]*\))?|const|unsafe|async|extern\s*\"[^\"]*\"|extern)\s*$", self.bl[:start])
            # extern "C" has its string blanked; accept blanked quotes
            if not m:
                m = re.search(r"(pub(\s*\([^)]*\))?|const|unsafe|async)\s*$", self.bl[:start])
            if not m:
                break
            start = m.start()
        ob = first_open_brace(self.bl, fn_kw)
        cb = match_brace(self.bl, ob)
        return start, ob, cb

    def find_typedef(self, name):
        m = re.search(r"^[ \t]*(pub(\s*\([^)]*\))?\s+)?(struct|enum|type)\s+%s\b" % re.escape(name), self.bl, re.M)
        if not m:
            raise AnchorLost("type %s not found in %s" % (name, self.relpath))
        depth = 0
        for k in range(m.end(), len(self.bl)):
            ch = self.bl[k]
            if ch == "{" and depth == 0:
                return m.start(), match_brace(self.bl, k) + 1
            if ch in "([":
                depth += 1
            elif ch in ")]":
                depth -= 1
            elif ch == ";" and depth == 0:
                return m.start(), k + 1
        raise AnchorLost("type %s unterminated" % name)

    def find_const(self, name):
        m = re.search(r"^[ \t]*(pub(\s*\([^)]*\))?\s+)?(const|static)\s+%s\s*:" % re.escape(name), self.bl, re.M)
        if not m:
            raise AnchorLost("const %s not found in %s" % (name, self.relpath))
        depth = 0
        for k in range(m.end(), len(self.bl)):
            ch = self.bl[k]
            if ch in "([{":
                depth += 1
            elif ch in ")]}":
                depth -= 1
            elif ch == ";" and depth == 0:
                return m.start(), k + 1
        raise AnchorLost("const %s unterminated" % name)


def strip_attrs_and_docs(text):
    """Drop doc comments, ordinary comments and #[...] attributes from a type definition."""
    bl = blank_noncode(text)
    # remove comments (blanked in bl, but strings are blanked too: type defs contain no strings)
    out = []
    i = 0
    while i < len(text):
        if text.startswith("//", i):
            j = text.find("\n", i)
            i = len(text) if j < 0 else j
        elif text.startswith("#[", i) and bl[i] == "#":
            depth, j = 0, i + 1
            while True:
                if bl[j] == "[":
                    depth += 1
                elif bl[j] == "]":
                    depth -= 1
                    if depth == 0:
                        break
                j += 1
            i = j + 1
        else:
            out.append(text[i])
            i += 1
    s = "".join(out)
    return re.sub(r"\n\s*\n+", "\n", s)


def name_return(sig, ret_name):
    """`-> T` => `-> (ret: T)` on a signature ending just before `{` / where-clause."""
    bl = blank_noncode(sig)
    # the return arrow belongs to the signature proper, not to a bound in the where-clause
    mwh = re.search(r"\bwhere\b", bl)
    limit = mwh.start() if mwh else len(bl)
    # find the `->` at paren depth 0 after the parameter list
    depth = 0
    arrow = -1
    k = 0
    while k < limit:
        ch = bl[k]
        if ch in "([<":
            # '<' of generics: track but beware of `->`
            depth += 1
        elif ch in ")]":
            depth -= 1
        elif ch == ">" and bl[k - 1] != "-":
            depth -= 1
        elif bl.startswith("->", k) and depth == 0:
            arrow = k
            break
        k += 1
    if arrow < 0:
        return sig, False
    rest = sig[arrow + 2:]
    mw = re.search(r"\bwhere\b", blank_noncode(rest))
    ty = rest[:mw.start()] if mw else rest
    tail = rest[mw.start():] if mw else ""
    lead = len(ty) - len(ty.lstrip())
    trail = len(ty) - len(ty.rstrip())
    core = ty.strip()
    new = sig[:arrow + 2] + ty[:lead] + OPEN_MARK + "(" + ret_name + ": " + CLOSE_MARK + core + OPEN_MARK + ")" + CLOSE_MARK + (ty[len(ty) - trail:] if trail else "") + tail
    return new, True


def find_loops(body_bl):
    """offsets (relative) of the `{` opening each loop body, in source order."""
    res = []
    for m in re.finditer(r"\b(while|for|loop)\b", body_bl):
        # skip `for` in `for<'a>` HRTB or `impl X for Y` (not in bodies normally)
        try:
            ob = first_open_brace(body_bl, m.end())
        except AnchorLost:
            continue
        res.append((ob, m.start(), m.end()))
    return res


def rw_selfas(text, name, ty):
    """alpha-rename the receiver: `mut self`/`self` parameter -> `mut name: Ty`/`name: Ty`; self -> name; Self -> Ty."""
    bl = blank_noncode(text)
    out = []
    last = 0
    first = True
    for m in re.finditer(r"\b(mut\s+self|self|Self)\b", bl):
        out.append(text[last:m.start()])
        tok = m.group(1)
        if tok == "Self":
            out.append(ty)
        elif first:
            # the receiver parameter itself
            out.append(("mut " if tok.startswith("mut") else "") + name + ": " + ty)
        else:
            out.append(name)
        if tok != "Self":
            first = False
        last = m.end()
    out.append(text[last:])
    return "".join(out)


def rw_untuple(text):
    """closure parameter that is a tuple pattern: `|(a, b)| BODY` (BODY = rest of the enclosing call's
    argument) -> `|vx_p| { let (a, b) = vx_p; BODY }`.  Pure desugaring."""
    k = 0
    while True:
        bl = blank_noncode(text)
        m = re.search(r"\|(\(([^()|]*)\))\|", bl)
        if not m:
            return text
        pat = text[m.start(1):m.end(1)]
        # body extends to the `)` closing the enclosing call
        depth = 0
        end = None
        for j in range(m.end(), len(bl)):
            ch = bl[j]
            if ch in "([{":
                depth += 1
            elif ch in ")]}":
                if depth == 0:
                    end = j
                    break
                depth -= 1
        if end is None:
            raise AnchorLost("untuple: closure body end not found")
        body = text[m.end():end]
        text = text[:m.start()] + "|vx_p%d| { let %s = vx_p%d; %s }" % (k, pat, k, body.strip()) + text[end:]
        k += 1


def apply_rewrites(text, opts):
    applied = []
    if opts.get("selfas"):
        name, ty = opts["selfas"].split(":", 1)
        text = rw_selfas(text, name, ty)
        applied.append("receiver alpha-renamed: self -> %s: %s (Verus has no `mut self`)" % (name, ty))
    if opts.get("untuple"):
        t2 = rw_untuple(text)
        if t2 != text:
            applied.append("closure tuple-pattern parameters desugared: |(a, b)| e -> |p| { let (a, b) = p; e }")
        text = t2
    if opts.get("namewild"):
        t2 = re.sub(r"\|\s*_\s*\|", "|_vx_unused|", text)
        if t2 != text:
            applied.append("closure wildcard parameter named: |_| e -> |_vx_unused| e (Verus rejects `_` closure parameters)")
        text = t2
    if opts.get("detuple"):
        t2 = rw_detuple(text)
        if t2 != text:
            applied.append("destructuring assignment desugared: (a, b) = e; -> { let t = e; a = t.0; b = t.1; }")
        text = t2
    return text, applied


def rw_detuple(text):
    """`(a, b) = EXPR;` (statement position, plain identifiers) -> block with positional projections.
    Verus does not support destructuring assignment; the meaning is unchanged."""
    pat = re.compile(r"(?m)^(\s*)\(\s*([A-Za-z_]\w*)\s*,\s*([A-Za-z_]\w*)\s*\)\s*=(?!=)\s*([^;]*);")

    def sub(m):
        ind, a, b, e = m.group(1), m.group(2), m.group(3), m.group(4)
        return "%s{ let vx_tuple = %s; %s = vx_tuple.0; %s = vx_tuple.1; }" % (ind, e, a, b)
    return pat.sub(sub, text)


def parse_opts(words):
    opts = {}
    for w in words:
        if w.startswith("nth="):
            opts["nth"] = int(w[4:])
        elif w.startswith("impl~"):
            opts["impl_re"] = w[5:]
        elif w.startswith("rename="):
            opts["rename"] = w[7:]
        elif w.startswith("ret="):
            opts["ret"] = w[4:]
        elif w.startswith("vis="):
            opts["vis"] = w[4:]
        elif w.startswith("selfas="):
            opts["selfas"] = w[7:]
        elif w == "untuple":
            opts["untuple"] = True
        elif w == "detuple":
            opts["detuple"] = True
        elif w == "namewild":
            opts["namewild"] = True
        elif w == "noterm":
            opts["noterm"] = True
        elif w.startswith("generics="):
            opts["generics"] = w[9:].replace(":", ": ").replace(",", ", ")
        else:
            raise ValueError("bad option " + w)
    return opts


def wrap(s):
    return OPEN_MARK + s + CLOSE_MARK


def generate(template_path, twin=False):
    """Returns (generated_text, report). report: items[], dropped[], fidelity[]"""
    lines = open(template_path).read().split("\n")
    out = []
    report = {"items": [], "dropped": [], "template": template_path}
    sources = {}

    def src(rel):
        if rel not in sources:
            sources[rel] = Source(rel)
        return sources[rel]

    i = 0
    while i < len(lines):
        ln = lines[i]
        if not ln.startswith("//@"):
            out.append(ln)
            i += 1
            continue
        words = ln[3:].split()
        kind = words[0]
        if kind == "include":
            # shared ghost text (spec functions, lemmas) kept once under /verif
            inc = os.path.join(os.path.dirname(os.path.dirname(os.path.abspath(__file__))), words[1])
            out.append(open(inc).read())
            i += 1
            continue
        if kind in ("struct", "const"):
            s = src(words[1])
            a, b = (s.find_typedef if kind == "struct" else s.find_const)(words[2])
            raw = s.text[a:b]
            for w in words[3:]:
                if w.startswith("expect="):
                    if not re.search(w[7:], " ".join(raw.split())):
                        raise AnchorLost("%s %s no longer matches /%s/: %s" % (kind, words[2], w[7:], " ".join(raw.split())[:120]))
            cleaned = strip_attrs_and_docs(raw)
            cleaned = re.sub(r"\bpub\s*\(\s*(crate|super)\s*\)", "pub", cleaned)
            if "pub" in words[3:]:
                # widen: the type and all of its named fields become pub (type definitions only)
                cleaned = re.sub(r"^(\s*)(struct|enum)\b", r"\1pub \2", cleaned, count=1)
                cleaned = re.sub(r"(?m)^(\s+)([a-z_][A-Za-z0-9_]*\s*:)", r"\1pub \2", cleaned)
                mt = re.match(r"(\s*pub\s+struct\s+\w+\s*(<[^>]*>)?\s*)\((.*)\)\s*;\s*$", cleaned, re.S)
                if mt:
                    # tuple struct: widen every positional field
                    inner, depth, parts, cur = mt.group(3), 0, [], ""
                    for ch in inner:
                        if ch in "(<[":
                            depth += 1
                        elif ch in ")>]":
                            depth -= 1
                        if ch == "," and depth == 0:
                            parts.append(cur)
                            cur = ""
                        else:
                            cur += ch
                    if cur.strip():
                        parts.append(cur)
                    parts = [x if x.strip().startswith("pub") else " pub " + x.strip() for x in parts]
                    cleaned = mt.group(1) + "(" + ",".join(parts) + ");"
            out.append(cleaned)
            report["items"].append({"file": words[1], "item": words[2], "role": kind,
                                    "sha256": hashlib.sha256(cleaned.encode()).hexdigest(),
                                    "line": s.text.count("\n", 0, a) + 1})
            i += 1
            continue
        if kind == "fields":
            # //@fields <file> <Struct> f1 f2 ...: the real struct reduced to the named fields, each with
            # the field's real declared type (checked against the struct text in /repo)
            s = src(words[1])
            a, b = s.find_typedef(words[2])
            body = strip_attrs_and_docs(s.text[a:b])
            decls = []
            for fname in words[3:]:
                mf = re.search(r"(?m)^\s*(?:pub(?:\([^)]*\))?\s+)?%s\s*:\s*(.+?),\s*$" % re.escape(fname), body)
                if not mf:
                    raise AnchorLost("field %s.%s not found in %s" % (words[2], fname, words[1]))
                decls.append("    pub %s: %s," % (fname, " ".join(mf.group(1).split())))
            out.append("pub struct %s {\n%s\n}" % (words[2], "\n".join(decls)))
            report["items"].append({"file": words[1], "item": words[2], "role": "struct (fields %s only)" % ",".join(words[3:]),
                                    "sha256": hashlib.sha256("\n".join(decls).encode()).hexdigest(),
                                    "line": s.text.count("\n", 0, a) + 1})
            i += 1
            continue
        if kind not in ("prove", "stub"):
            raise ValueError("unknown directive: " + ln)
        rel, item = words[1], words[2]
        opts = parse_opts(words[3:])
        # collect sub-blocks
        blocks = []
        i += 1
        cur = None
        while True:
            if i >= len(lines):
                raise ValueError("unterminated directive for " + item)
            l2 = lines[i]
            if l2.startswith("//@end"):
                i += 1
                break
            if l2.startswith("//@"):
                w2 = l2[3:].split(None, 1)
                cur = {"kind": w2[0], "arg": w2[1].strip() if len(w2) > 1 else "", "text": []}
                blocks.append(cur)
            elif cur is not None:
                cur["text"].append(l2)
            i += 1
        s = src(rel)
        start, ob, cb = s.find_fn(item, opts.get("nth", 0), opts.get("impl_re"))
        sig = s.text[start:ob]
        body = s.text[ob:cb + 1]
        orig_text = sig + body
        rewrites = []
        if kind == "prove" and (opts.get("selfas") or opts.get("untuple") or opts.get("detuple") or opts.get("namewild")):
            whole, rewrites = apply_rewrites(orig_text, opts)
            wbl = blank_noncode(whole)
            wob = first_open_brace(wbl, wbl.index("fn "))
            sig, body = whole[:wob], whole[wob:]
        elif kind == "stub" and opts.get("selfas"):
            sig, rewrites = apply_rewrites(sig, opts)
        line_no = s.text.count("\n", 0, start) + 1
        contract = "\n".join("\n".join(b["text"]) for b in blocks if b["kind"] == "contract")
        # restricted visibility has no meaning in the single-file crate: pub(crate|super|in ..) -> pub
        sig_v = re.sub(r"^pub\s*\([^)]*\)", "pub", sig.rstrip())
        sig_named, had_ret = name_return(sig_v, opts.get("ret", "ret"))
        if "generics" in opts:
            fname = item.split("::")[-1]
            sig_named = re.sub(r"(\bfn\s+%s\b)" % re.escape(fname), lambda m: m.group(1) + wrap("<" + opts["generics"] + ">"), sig_named, count=1)
        if "rename" in opts:
            fname = item.split("::")[-1]
            sig_named = re.sub(r"\bfn\s+%s\b" % re.escape(fname), lambda m: "fn " + wrap("") + opts["rename"] + wrap(""), sig_named, count=1)
            # rename is recorded; fidelity check maps it back
        twin_contract = None
        if twin and kind == "prove":
            # vacuity twin: a renamed copy of the function with an extra `ensures false` must fail.
            # The original keeps its honest contract so that callers are not given `false`.
            if re.search(r"\bensures\b", contract):
                twin_contract = contract.rstrip().rstrip(",") + ",\n        false,"
            else:
                twin_contract = contract + "\n    ensures false,"
        if kind == "stub":
            text = "#[verifier::external_body]\n" + sig_named + "\n" + contract + "\n{ unimplemented!() }"
            report["items"].append({"file": rel, "item": item, "role": "stub", "line": line_no,
                                    "sig_sha256": hashlib.sha256(" ".join(sig.split()).encode()).hexdigest(),
                                    "contract": contract.strip()})
            out.append("// ---- stub (assumed contract): %s %s:%d" % (item, rel, line_no))
            out.append(text)
            continue
        # prove: insertions into body
        body_bl = blank_noncode(body)
        inserts = []  # (offset, text)
        loops = None
        for b in blocks:
            txt = "\n".join(b["text"])
            if b["kind"] == "contract":
                continue
            if b["kind"] == "bodystart":
                inserts.append((1, "\n" + txt + "\n"))
            elif b["kind"] in ("loop", "afterloop", "beforeloop", "foriter", "loopbody"):
                if loops is None:
                    loops = find_loops(body_bl)
                k = int(b["arg"])
                if k >= len(loops):
                    raise AnchorLost("%s: loop #%d not found (have %d)" % (item, k, len(loops)))
                if b["kind"] == "loop":
                    inserts.append((loops[k][0], "\n" + txt + "\n"))
                elif b["kind"] == "loopbody":
                    inserts.append((loops[k][0] + 1, "\n" + txt + "\n"))
                elif b["kind"] == "beforeloop":
                    inserts.append((loops[k][1], "\n" + txt + "\n"))
                elif b["kind"] == "foriter":
                    # name the ghost iterator of a `for PAT in EXPR` loop: `for PAT in NAME: EXPR`
                    mm = re.compile(r"\bin\b").search(body_bl, loops[k][2])
                    if not mm or mm.start() > loops[k][0]:
                        raise AnchorLost("%s: loop #%d is not a for-in loop" % (item, k))
                    inserts.append((mm.end(), " " + txt.strip() + ": "))
                else:
                    inserts.append((match_brace(body_bl, loops[k][0]) + 1, "\n" + txt + "\n"))
            elif b["kind"] in ("after", "before", "after?", "before?"):
                # anchors are matched on the body with comments and string contents blanked
                optional = b["kind"].endswith("?")
                arg = b["arg"]
                presence = None
                if optional and " ;; " in arg:
                    arg, presence = arg.split(" ;; ", 1)
                ms = list(re.finditer(arg, body_bl))
                if len(ms) != 1:
                    if optional and len(ms) == 0 and not (presence and re.search(presence, body_bl)):
                        # the anchored construct is absent altogether: nothing is inserted, and the
                        # obligations that needed the inserted lemma will fail by themselves
                        report.setdefault("skipped_optional_anchors", []).append("%s: /%s/" % (item, arg))
                        continue
                    raise AnchorLost("%s: anchor /%s/ matched %d times" % (item, arg, len(ms)))
                pos = ms[0].end() if b["kind"].startswith("after") else ms[0].start()
                inserts.append((pos, "\n" + txt + "\n"))
            else:
                raise ValueError("unknown block " + b["kind"])
        inserts.sort(key=lambda t: t[0])
        nb = []
        last = 0
        for pos, txt in inserts:
            nb.append(body[last:pos])
            nb.append(wrap(txt))
            last = pos
        nb.append(body[last:])
        new_body = "".join(nb)
        text = sig_named + "\n" + wrap(contract + "\n") + new_body
        if kind == "prove" and opts.get("noterm"):
            # termination of this function is not checked (a verifier attribute, no code change);
            # reported in the unit's assumptions
            text = wrap("#[verifier::exec_allows_no_decreases_clause]\n") + text
            report.setdefault("termination_unchecked", []).append(item)
        out.append("// ---- proved verbatim: %s %s:%d" % (item, rel, line_no))
        if twin_contract is None:
            out.append("//@@begin %s %s" % (rel, item))
            out.append(text)
            out.append("//@@end")
        else:
            out.append(text)
            cur_name = opts.get("rename") or item.split("::")[-1]
            tsig = re.sub(r"\bfn\s+((?:%s)?)%s\b" % (re.escape(wrap("")), re.escape(cur_name)), "fn " + cur_name + "__vxtwin", sig_named, count=1)
            out.append("//@@begin %s %s" % (rel, item))
            out.append((wrap("#[verifier::exec_allows_no_decreases_clause]\n") if opts.get("noterm") else "") + tsig + "\n" + wrap(twin_contract + "\n") + new_body)
            out.append("//@@end")
        report["items"].append({"file": rel, "item": item, "role": "prove", "line": line_no,
                                "body_sha256": hashlib.sha256(orig_text.encode()).hexdigest(),
                                "loc": body.count("\n") + 1, "rename": opts.get("rename"),
                                "rewrites": rewrites, "opts": {k: opts[k] for k in ("selfas", "untuple", "detuple", "namewild", "noterm") if k in opts},
                                "contract": contract.strip()})
    gen = "\n".join(out)
    report["dropped"] = [
        "doc comments and attributes on extracted items and type definitions",
        "the enclosing impl header's generics/where-clauses (the template supplies the impl block)",
        "restricted visibility on function signatures (pub(crate), pub(super)) is widened to pub",
        "return types are named: `-> T` becomes `-> (ret: T)` (needed to state postconditions)",
        "pub(crate)/pub(super)/private widened to pub on extracted type definitions, their fields and constants (single-file crate; no runtime meaning)",
        "foreign type definitions not extracted with //@struct are opaque declarations in the unit prelude",
    ]
    return gen, report


def strip_marks(text):
    res = []
    i = 0
    while True:
        j = text.find(OPEN_MARK, i)
        if j < 0:
            res.append(text[i:])
            break
        res.append(text[i:j])
        k = text.find(CLOSE_MARK, j)
        if k < 0:
            raise AnchorLost("unbalanced vx marker")
        i = k + len(CLOSE_MARK)
    return "".join(res)


def verify_fidelity(gen_text, report):
    """Strip insertions from each proved item in the generated text, compare with /repo source."""
    results = []
    sources = {}
    for m in re.finditer(r"^//@@begin (\S+) (\S+)\n(.*?)\n//@@end$", gen_text, re.S | re.M):
        rel, item, chunk = m.group(1), m.group(2), m.group(3)
        it = [x for x in report["items"] if x["role"] == "prove" and x["file"] == rel and x["item"] == item][0]
        stripped = strip_marks(chunk)
        if rel not in sources:
            sources[rel] = Source(rel)
        s = sources[rel]
        # locate again, independently
        found = False
        for nth in range(0, 8):
            try:
                start, ob, cb = s.find_fn(item, nth)
            except AnchorLost:
                break
            orig = s.text[start:cb + 1]
            if it.get("opts"):
                orig, _ = apply_rewrites(orig, it["opts"])
            a = re.sub(r"^pub\([^)]*\)", "pub", "".join(orig.split()))
            b = "".join(stripped.split())
            if it.get("rename"):
                b = b.replace("fn" + it["rename"], "fn" + item.split("::")[-1], 1)
            if a == b:
                found = True
                break
        results.append({"item": item, "file": rel, "identical_modulo_whitespace": found})
    return results


if __name__ == "__main__":
    tmpl = sys.argv[1]
    gen, rep = generate(tmpl, twin="--twin" in sys.argv)
    sys.stdout.write(gen)
    fid = verify_fidelity(gen, rep)
    sys.stderr.write(json.dumps({"fidelity": fid, "items": [(x["role"], x["item"]) for x in rep["items"]]}, indent=1) + "\n")

#!/bin/sh
# Offline setup: nothing to install; make scratch dirs and warm the caches that quick checks reuse.
set -e
cd "$(dirname "$0")"
mkdir -p .build/verus replay/out evidence
exit 0

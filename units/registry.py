"""Which units decide which property."""

VERUS = {
    "v1_sync": {"template": "units/verus/v1_sync.rs.tmpl", "rlimit": 30,
                "attribution": [
                    # first match wins
                    (r"clause: .*bitbox_post_done", ["C14"]),
                    (r"clause: (wal_durable|values_durable|rb_range_durable)", ["C04", "C14"]),
                    (r"clause: committed_for_", ["C04", "C17"]),
                    (r"clause: meta\.magic", ["C04", "C16"]),
                    (r"clause: .*sync_seqn", ["C04", "C14"]),
                ]},
    "v2_store_commit": {"template": "units/verus/v2_store_commit.rs.tmpl", "rlimit": 30},
    "v5_overflow_pages": {"template": "units/verus/v5_overflow_pages.rs.tmpl", "rlimit": 60},
    "v6_free_list": {"template": "units/verus/v6_free_list.rs.tmpl", "rlimit": 60},
    "v7_hasher": {"template": "units/verus/v7_hasher.rs.tmpl", "rlimit": 30},
    "v8_write_ht": {"template": "units/verus/v8_write_ht.rs.tmpl", "rlimit": 30,
                    "playback_scenarios": {"write_ht": ("nomt", "replay_write_ht_reports_failed_page_write")}},
    "v3_commit_entry": {"template": "units/verus/v3_commit_entry.rs.tmpl", "rlimit": 30,
                        "scenarios": {
                            "FinishedSession::try_commit_nonblocking": "c12_stale_nonblocking",
                            "Overlay::commit": "c12_rejected_overlay",
                            "Overlay::try_commit_nonblocking": "c12_rejected_overlay",
                        }},
}

KANI = {
    "k6_bit_ops": {
        "crate": "nomt", "module": "beatree::ops::bit_ops::verif_kani", "module_file": "/verif/units/kani/bit_ops.rs",
        "harnesses": [
            {"name": "prefix_len_is_lcp", "complete": True, "about": "bit_ops::prefix_len",
             "contract": "forall a, b: r <= 256; bits below r agree; bit r differs when r < 256; r == 256 iff a == b (loops bounded by the key width: complete)"},
            {"name": "separator_len_spec", "complete": True, "about": "bit_ops::separator_len",
             "contract": "forall k: r == max(1, 256 - trailing zero bits of k)"},
            {"name": "separate_is_shortest_separator", "complete": True, "about": "bit_ops::separate",
             "contract": "forall a < b: a < s <= b; s agrees with b on its first lcp+1 bits and is zero afterwards; separator_len(s) == lcp+1"},
        ],
        "functions": [("nomt/src/beatree/ops/bit_ops.rs", "prefix_len"), ("nomt/src/beatree/ops/bit_ops.rs", "separate"), ("nomt/src/beatree/ops/bit_ops.rs", "separator_len")],
        "unwindset": ["memcmp.0:34"],
        "harness_timeout": 900,
    },
    "k6_memcpy": {
        "crate": "nomt", "module": "beatree::ops::bit_ops::verif_kani", "module_file": "/verif/units/kani/bit_ops.rs",
        "harnesses": [
            {"name": "bitwise_memcpy_%dchunk%s" % (n, "" if n == 1 else "s"), "complete": False,
             "bound": "source of exactly %d chunk(s) of 8 bytes (covers every single-separator copy, <= 256 bits at bit offset < 8, when taken over 1..5); destination <= 48 bytes; range copies of more chunks (push_chunk) are not covered" % n,
             "about": "bit_ops::bitwise_memcpy",
             "contract": "forall source bytes, destination bytes, bit offsets < 8, lengths that fit: destination bit dstart+j == source bit sstart+j for every j < len, every other destination bit unchanged"}
            for n in (1, 2, 3, 4, 5)
        ],
        "functions": [("nomt/src/beatree/ops/bit_ops.rs", "bitwise_memcpy"), ("nomt/src/beatree/ops/bit_ops.rs", "first_chunk_mask"), ("nomt/src/beatree/ops/bit_ops.rs", "last_chunk_mask")],
        "unwindset": ["memcmp.0:34"],
        "harness_timeout": 900,
    },
    "k5_overflow": {
        "crate": "nomt", "module": "beatree::ops::overflow::verif_kani", "module_file": "/verif/units/kani/overflow.rs",
        "harnesses": [
            {"name": "total_needed_pages_contract", "complete": True, "tier": "thorough", "about": "overflow::total_needed_pages (Kani twin of Verus unit v5; ~5 min of SAT)",
             "contract": "forall 1 <= v <= 2^29: P >= 1, P*4092 >= v + 4*max(0,P-15), (P-1)*4092 < v + 4*max(0,P-15)"},
        ] + [
            {"name": "overflow_cell_roundtrip_%d" % n, "complete": True, "tier": ("quick" if n in (1, 2, 15) else "thorough"),
             "about": "overflow::{encode_cell, decode_cell}",
             "contract": "decode_cell(encode_cell(size, hash, pages)) == (size, hash, pages) for %d page numbers (one harness per n in 1..=15, the format's bound)" % n}
            for n in range(1, 16)
        ],
        "functions": [("nomt/src/beatree/ops/overflow.rs", "total_needed_pages"), ("nomt/src/beatree/ops/overflow.rs", "needed_pages"), ("nomt/src/beatree/ops/overflow.rs", "encode_cell"), ("nomt/src/beatree/ops/overflow.rs", "decode_cell")],
        "unwindset": ["memcmp.0:34"],
        "harness_timeout": 900,
    },
    "k_hasher": {
        "crate": "nomt-core", "module": "hasher::verif_kani", "module_file": "/verif/units/kani/core_hasher.rs",
        "harnesses": [
            {"name": "node_kind_matches_spec", "complete": True, "about": "node_kind_by_msb, BinaryHasher::node_kind (core/src/hasher.rs)",
             "contract": "forall node: node_kind == (MSB set -> Leaf | all zero -> Terminator | else Internal)"},
            {"name": "leaf_and_internal_hashes_are_domain_separated", "complete": True, "about": "BinaryHasher::{hash_leaf,hash_internal}",
             "contract": "forall inputs and every underlying hash: kind(hash_leaf) == Leaf, kind(hash_internal) != Leaf, the two never collide, a leaf hash is never the terminator"},
        ],
        "functions": [("core/src/hasher.rs", "node_kind_by_msb"), ("core/src/hasher.rs", "set_msb"), ("core/src/hasher.rs", "unset_msb"), ("core/src/hasher.rs", "BinaryHasher::hash_leaf"), ("core/src/hasher.rs", "BinaryHasher::hash_internal")],
        "trusted": ["the underlying binary hash is modelled as an arbitrary function (fresh symbolic value per call)"],
        "flags": ["--no-memory-safety-checks"],
        "harness_timeout": 300,
    },
    "k1_wal": {
        "crate": "nomt", "module": "bitbox::writeout::verif_kani", "module_file": "/verif/units/kani/bitbox_writeout.rs",
        "harnesses": [
            {"name": "write_wal_effects", "complete": True, "about": "bitbox::writeout::write_wal (nomt/src/bitbox/writeout.rs)",
             "contract": "for every blob (symbolic length 1..8 stands for any length: the code is length-agnostic, one write call) and every failure position: Ok ==> trace == [set_len 0, seek 0, write(len), fsync]; a failing operation ==> Err and nothing issued after it; no failure swallowed",
             "bound": "blob length 1..8 bytes (write_all issues a single write in the stub model)"},
            {"name": "truncate_wal_effects", "complete": True, "about": "bitbox::writeout::truncate_wal",
             "contract": "set_len 0, seek 0, fsync iff do_sync; failures propagate; nothing issued after a failure"},
        ],
        "functions": [("nomt/src/bitbox/writeout.rs", "write_wal"), ("nomt/src/bitbox/writeout.rs", "truncate_wal")],
        "trusted": ["std::fs::File::{set_len,sync_all}, <&File as Seek>::seek, <&File as Write>::write are stubbed by a ghost effect log that fails nondeterministically (std I/O itself is not verified)"],
        "harness_timeout": 300,
    },
    "k1_meta_write": {
        "crate": "nomt", "module": "store::meta::verif_kani", "module_file": "/verif/units/kani/store_meta.rs",
        "harnesses": [
            {"name": "meta_write_effects", "complete": True, "about": "Meta::write (nomt/src/store/meta.rs)",
             "contract": "for every Meta and failure position: Ok ==> exactly one 4096-byte write at offset 0 whose first 64 bytes decode to the given meta, followed by fsync; a failing operation ==> Err, nothing after it"},
        ],
        "functions": [("nomt/src/store/meta.rs", "Meta::write")],
        "unwindset": ["memcmp.0:40"],
        "trusted": ["FileExt::write_at and File::sync_all stubbed by the ghost effect log; PagePool::alloc/dealloc stubbed by a fresh zeroed 4096-byte heap buffer"],
        "harness_timeout": 600,
    },
    "k2_meta": {
        "crate": "nomt", "module": "store::meta::verif_kani", "module_file": "/verif/units/kani/store_meta.rs",
        "harnesses": [
            {"name": "meta_roundtrip", "complete": True, "about": "Meta::encode_to / Meta::decode (nomt/src/store/meta.rs)",
             "contract": "forall m, buf: decode(encode_to(m, buf)) == m field by field; bytes >= META_SIZE of buf unchanged"},
            {"name": "meta_decode_injective", "complete": True, "about": "Meta::decode / Meta::encode_to",
             "contract": "forall b: [u8;64]: encode_to(decode(b)) == b (no slack bytes in the record)"},
        ],
        "functions": [("nomt/src/store/meta.rs", "Meta::encode_to"), ("nomt/src/store/meta.rs", "Meta::decode")],
        "harness_timeout": 300,
    },
}

PROPERTIES = {
    "C04": {"verus": ["v1_sync", "v8_write_ht"], "kani": ["k1_wal", "k1_meta_write"], "level": "proof",
            "technique": "contract-based deductive verification (Verus on Sync::sync extracted verbatim; typestate preconditions on the switch-over)",
            "level_text": "Sync::sync, extracted byte-for-byte on every run, is proved for all inputs against callee contracts in which Meta::write requires the WAL, value files and rollback range named by the new meta to be durable and every post-switch-over step requires the committed meta. Proof of the ordering inside the orchestrating function, not of the whole system.",
            "level_note": "callee contracts (bitbox/beatree/rollback sync controllers, Meta::write) are assumed (stubs) except where a Kani harness discharges them; threads behind begin_sync, fsync semantics of the OS and the u32 sequence number not wrapping are assumed",
            "explanation": "", "assumptions": ["callee contracts listed in trusted_base", "fsync makes data durable", "sync_seqn < u32::MAX", "panic_on_sync test knob is off"]},
    "C01": {"verus": ["v5_overflow_pages"], "kani": ["k6_bit_ops", "k6_memcpy", "k5_overflow"], "level": "proof",
            "technique": "contract-based verification of the functions every lookup rests on (Verus: overflow page sizing; Kani over full-domain symbolic keys: separators, prefix length, bit-level copy, overflow cell codec)",
            "level_text": "component level: the arithmetic and bit-level functions that key lookup, prefix compression and multi-page values rest on are proved against mathematical specifications for all inputs (complete where loops are bounded by the key width; bitwise_memcpy bounded to 5 chunks). The for-all-histories statement itself (leaf/branch updaters, splits, merges, staging) is not decided by this technique.",
            "level_note": "Kani/CBMC and Verus/Z3; the updaters (leaf_stage, branch_stage, *_updater, branch_ops), index and staging maps are outside the verified set",
            "explanation": "", "assumptions": ["leaf/branch stage updaters and the commit history composition are not verified"]},
    "C16": {"verus": ["v6_free_list"], "kani": ["k2_meta", "k6_bit_ops", "k5_overflow"], "level": "proof",
            "technique": "contract-based verification of the on-disk codecs (Kani harnesses over full-domain symbolic inputs on the real functions; Verus on separators and the free list)",
            "level_text": "format level: each codec pair of the on-disk formats is proved inverse and frame-tight on the real functions; loop-free or format-constant-bounded harnesses are complete proofs, the others are labelled bounded. The whole-image invariant after a history is not decided.",
            "level_note": "Kani/CBMC; PagePool buffers modelled as fresh 4096-byte arrays; bounded harnesses are listed in coverage.bounded_obligations and are not counted as proved",
            "explanation": "", "assumptions": ["global well-formedness across pages after a history is not decided"]},
    "C08": {"verus": ["v7_hasher"], "kani": ["k_hasher"], "level": "proof",
            "technique": "contract-based deductive verification (Verus on the node-kind tagging of core/src/hasher.rs; Kani on the verifiers' scope checks)",
            "level_text": "component level: the real hasher code is proved to separate leaf hashes from internal hashes and the terminator for every input and every underlying hash function (the domain-separation fact every soundness argument starts from); the scope checks of the verifiers are checked by Kani harnesses over symbolic proofs (bounded in length). The inductive soundness theorem for arbitrary depth and collision resistance itself are not decided.",
            "level_note": "the binary hash is an uninterpreted function; TERMINATOR == [0;32] is an axiom whose source text is checked by the extractor; collision resistance of blake3/sha2 is assumed and not used",
            "explanation": "", "assumptions": ["collision resistance of the hash (not used by the proved obligations)", "soundness for arbitrary depth is not decided"]},
    "C17": {"verus": ["v1_sync", "v6_free_list"], "kani": ["k1_wal"], "level": "proof",
            "technique": "contract-based deductive verification (Verus: destructive post-switch-over steps of Sync::sync require the committed meta; free-list pops hand out only listed pages)",
            "level_text": "component level: in Sync::sync every step that overwrites or discards data of the previous image (hash-table writeout and WAL truncation, beatree finish_sync, rollback pruning) requires the committed meta as a precondition; the free list hands out exactly the pages it lists, each once (get_nth_pop/discard/pop against the stack view); write_wal touches only the WAL. That leaf/branch stages write only allocator-provided pages is not decided.",
            "level_note": "callee contracts of the sync controllers are assumed; the whole-module frame condition of the stage writers is not verified",
            "explanation": "", "assumptions": ["stage writers use only SyncAllocator pages (not verified)"]},
    "C19": {"verus": ["v6_free_list", "v5_overflow_pages"], "kani": [], "level": "proof",
            "technique": "contract-based deductive verification (Verus: free-list stack view, length/fragmentation accounting, overflow page count)",
            "level_text": "component level: FreeList::{pop, discard}, CleanFreeList::get_nth_pop and len_and_fragmented are proved against an abstract stack view for lists of any size (what was handed out is exactly what is removed; len counts exactly the entries; an emptied portion page is released); total_needed_pages gives the exact page count both chunk and delete use. Conservation across FreeList::commit and the hash-table occupancy counter are not decided.",
            "level_note": "FreeList::commit/preallocate/push_and_encode (fragmentation case) and bitbox occupancy accounting are not verified",
            "explanation": "", "assumptions": ["FreeList::commit not verified", "bitbox occupancy accounting not verified"]},
    "C12": {"verus": ["v3_commit_entry"], "kani": [], "level": "proof",
            "technique": "contract-based deductive verification (Verus on the four commit entry points extracted verbatim; effects require an `authorised()` token only the base check yields)",
            "level_text": "FinishedSession::{commit,try_commit_nonblocking} and Overlay::{commit,try_commit_nonblocking} are proved for all inputs: every effectful callee (rollback log append, store commit, overlay status flip) and both shared-state assignments require that the previous-root check has passed on this execution. Failures are replayed by scenarios against the real crate.",
            "level_note": "the list of effectful callees is the stub list (Rollback::commit*, Store::commit, Overlay::mark_committed, assignments to Shared); parking_lot guards are modelled as &mut T; callee bodies are not verified here",
            "explanation": "", "assumptions": ["effectful callees are exactly the stubs that require authorised()", "lock guards modelled as &mut T"]},
    "C14": {"verus": ["v1_sync", "v2_store_commit", "v8_write_ht"], "kani": ["k1_wal", "k1_meta_write"], "level": "proof",
            "technique": "contract-based deductive verification (Verus: Ok only through callees' Ok tokens; poison protocol of Store::commit)",
            "level_text": "Sync::sync and Store::commit, extracted verbatim, are proved for all inputs: Ok is returned only if every fallible callee returned Ok (each Ok yields a token the postcondition demands), every error path leaves the poison flag set, and a sync is started only after the flag was read clear. Reopen-atomicity (the C03 part of the statement) is not decided.",
            "level_note": "callee contracts are assumed (stubs); join_task forwarding a task's Err, thread pools and the OS are assumed; AtomicBool and parking_lot::Mutex are external models",
            "explanation": "", "assumptions": ["callee contracts listed in trusted_base", "AtomicBool/Mutex models"]},
}

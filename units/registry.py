"""Which units decide which property."""

VERUS = {
    "v1_sync": {"template": "units/verus/v1_sync.rs.tmpl", "rlimit": 30,
                "attribution": [
                    # first match wins
                    (r"clause: .*bitbox_post_done", ["C14"]),
                    (r"clause: (wal_durable|values_durable|rb_range_durable)", ["C04", "C14"]),
                    (r"clause: committed_for_", ["C04", "C17"]),
                    (r"clause: meta\.magic", ["C04", "C16"]),
                    (r"clause: .*sync_seqn", ["C04", "C14"]),
                ]},
    "v2_store_commit": {"template": "units/verus/v2_store_commit.rs.tmpl", "rlimit": 30},
    "v3_commit_entry": {"template": "units/verus/v3_commit_entry.rs.tmpl", "rlimit": 30,
                        "scenarios": {
                            "FinishedSession::try_commit_nonblocking": "c12_stale_nonblocking",
                            "Overlay::commit": "c12_rejected_overlay",
                            "Overlay::try_commit_nonblocking": "c12_rejected_overlay",
                        }},
}

KANI = {}

PROPERTIES = {
    "C04": {"verus": ["v1_sync"], "kani": [], "level": "proof",
            "explanation": "", "assumptions": []},
    "C12": {"verus": ["v3_commit_entry"], "kani": [], "level": "proof",
            "explanation": "", "assumptions": []},
    "C14": {"verus": ["v1_sync", "v2_store_commit"], "kani": [], "level": "proof",
            "explanation": "", "assumptions": []},
}

"""Which units decide which property."""

VERUS = {
    "v1_sync": {"template": "units/verus/v1_sync.rs.tmpl", "rlimit": 30,
                "attribution": [
                    # first match wins
                    (r"clause: .*bitbox_post_done", ["C14"]),
                    (r"clause: (wal_durable|values_durable|rb_range_durable)", ["C04", "C14"]),
                    (r"clause: committed_for_", ["C04", "C17"]),
                    (r"clause: meta\.magic", ["C04", "C16"]),
                    (r"clause: .*sync_seqn", ["C04", "C14"]),
                ]},
    "v2_store_commit": {"template": "units/verus/v2_store_commit.rs.tmpl", "rlimit": 30},
    "v3_commit_entry": {"template": "units/verus/v3_commit_entry.rs.tmpl", "rlimit": 30,
                        "scenarios": {
                            "FinishedSession::try_commit_nonblocking": "c12_stale_nonblocking",
                            "Overlay::commit": "c12_rejected_overlay",
                            "Overlay::try_commit_nonblocking": "c12_rejected_overlay",
                        }},
}

KANI = {
    "k2_meta": {
        "crate": "nomt", "module": "store::meta::verif_kani", "module_file": "/verif/units/kani/store_meta.rs",
        "harnesses": [
            {"name": "meta_roundtrip", "complete": True, "about": "Meta::encode_to / Meta::decode (nomt/src/store/meta.rs)",
             "contract": "forall m, buf: decode(encode_to(m, buf)) == m field by field; bytes >= META_SIZE of buf unchanged"},
            {"name": "meta_decode_injective", "complete": True, "about": "Meta::decode / Meta::encode_to",
             "contract": "forall b: [u8;64]: encode_to(decode(b)) == b (no slack bytes in the record)"},
        ],
        "functions": [("nomt/src/store/meta.rs", "Meta::encode_to"), ("nomt/src/store/meta.rs", "Meta::decode")],
        "harness_timeout": 300,
    },
}

PROPERTIES = {
    "C04": {"verus": ["v1_sync"], "kani": [], "level": "proof",
            "technique": "contract-based deductive verification (Verus on Sync::sync extracted verbatim; typestate preconditions on the switch-over)",
            "level_text": "Sync::sync, extracted byte-for-byte on every run, is proved for all inputs against callee contracts in which Meta::write requires the WAL, value files and rollback range named by the new meta to be durable and every post-switch-over step requires the committed meta. Proof of the ordering inside the orchestrating function, not of the whole system.",
            "level_note": "callee contracts (bitbox/beatree/rollback sync controllers, Meta::write) are assumed (stubs) except where a Kani harness discharges them; threads behind begin_sync, fsync semantics of the OS and the u32 sequence number not wrapping are assumed",
            "explanation": "", "assumptions": ["callee contracts listed in trusted_base", "fsync makes data durable", "sync_seqn < u32::MAX", "panic_on_sync test knob is off"]},
    "C16": {"verus": [], "kani": ["k2_meta"], "level": "proof",
            "technique": "contract-based verification of the on-disk codecs (Kani harnesses over full-domain symbolic inputs on the real functions; Verus on separators and the free list)",
            "level_text": "format level: each codec pair of the on-disk formats is proved inverse and frame-tight on the real functions; loop-free or format-constant-bounded harnesses are complete proofs, the others are labelled bounded. The whole-image invariant after a history is not decided.",
            "level_note": "Kani/CBMC; PagePool buffers modelled as fresh 4096-byte arrays; bounded harnesses are listed in coverage.bounded_obligations and are not counted as proved",
            "explanation": "", "assumptions": ["global well-formedness across pages after a history is not decided"]},
    "C12": {"verus": ["v3_commit_entry"], "kani": [], "level": "proof",
            "technique": "contract-based deductive verification (Verus on the four commit entry points extracted verbatim; effects require an `authorised()` token only the base check yields)",
            "level_text": "FinishedSession::{commit,try_commit_nonblocking} and Overlay::{commit,try_commit_nonblocking} are proved for all inputs: every effectful callee (rollback log append, store commit, overlay status flip) and both shared-state assignments require that the previous-root check has passed on this execution. Failures are replayed by scenarios against the real crate.",
            "level_note": "the list of effectful callees is the stub list (Rollback::commit*, Store::commit, Overlay::mark_committed, assignments to Shared); parking_lot guards are modelled as &mut T; callee bodies are not verified here",
            "explanation": "", "assumptions": ["effectful callees are exactly the stubs that require authorised()", "lock guards modelled as &mut T"]},
    "C14": {"verus": ["v1_sync", "v2_store_commit"], "kani": [], "level": "proof",
            "technique": "contract-based deductive verification (Verus: Ok only through callees' Ok tokens; poison protocol of Store::commit)",
            "level_text": "Sync::sync and Store::commit, extracted verbatim, are proved for all inputs: Ok is returned only if every fallible callee returned Ok (each Ok yields a token the postcondition demands), every error path leaves the poison flag set, and a sync is started only after the flag was read clear. Reopen-atomicity (the C03 part of the statement) is not decided.",
            "level_note": "callee contracts are assumed (stubs); join_task forwarding a task's Err, thread pools and the OS are assumed; AtomicBool and parking_lot::Mutex are external models",
            "explanation": "", "assumptions": ["callee contracts listed in trusted_base", "AtomicBool/Mutex models"]},
}

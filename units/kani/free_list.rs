//! Free-list commit: BOUNDED NATIVE ENUMERATION of the real `FreeList::{discard, commit}` (run with
//! `cargo kani playback`, i.e. an ordinary debug build of the real crate; no solver).  The
//! deductive units v6/v10/v11 prove pop / discard / get_nth_pop / len accounting / the finisher and
//! the allocator; `commit` (preallocate + push_and_encode, the fragmentation protocol) was not
//! brought within Verus' reach, so this labelled stand-in checks its contract on a grid of list
//! shapes around the 1022-entry page boundaries.  Never counted as proved.
#![allow(unused_imports, dead_code)]
use super::*;

#[cfg(test)]
fn build_list(page_pool: &PagePool, n: usize, bump: &mut PageNumber, next_free: &mut u32, disk: &File) -> FreeList {
    // a clean list with n entries, built through the real API from the empty list
    let mut fl = FreeList { portions: vec![], pop: false, len: 0, fragmented: false, released_portions: vec![] };
    let to_push: Vec<PageNumber> = (0..n).map(|_| { let p = PageNumber(*next_free); *next_free += 1; p }).collect();
    let pages = fl.commit(page_pool, to_push, bump);
    write_pages(disk, &pages);
    fl
}

/// the store file of the enumeration: a sparse file the written free-list pages go to
#[cfg(test)]
fn write_pages(disk: &File, pages: &[(PageNumber, FatPage)]) {
    use std::os::unix::fs::FileExt;
    for (pn, page) in pages {
        disk.write_all_at(&page[..], pn.0 as u64 * PAGE_SIZE as u64).unwrap();
    }
}

#[cfg(test)]
fn tracked(fl: &FreeList) -> std::collections::BTreeSet<u32> {
    fl.all_tracked_pages().into_iter().map(|p| p.0).collect()
}

/// Contract of one sync step on the free list, checked for every (old length, number of pages
/// allocated during the sync, number of pages freed) on a grid around the page boundaries:
///  C17 (copy-on-write): no page written by `commit` is a page of the previous image's free list
///       that is still listed or still a portion head after the allocations - the previous image
///       must stay readable until the meta swap; every written page number is either one of the
///       old list's entries or a bump page;
///  C19 (conservation): tracked' == (tracked \ allocated) + freed + bump pages, without duplicates;
///  C16 (format): the written pages decode to the new portions, chained through prev pointers from
///       the new head; `len` and `fragmented` describe the portions (shape invariant of unit v6).
#[cfg(test)]
#[test]
fn native_enum_free_list_commit_contract() {
    let page_pool = PagePool::new();
    let m = MAX_PNS_PER_PAGE;
    let olds = [0usize, 1, 2, 5, m - 1, m, m + 1, m + 2, 2 * m - 1, 2 * m, 2 * m + 1, 3 * m + 1];
    let allocs = [0usize, 1, 2, 3, m - 1, m, m + 1, 2 * m + 3];
    let frees = [0usize, 1, 2, m - 2, m - 1, m, m + 1, 2 * m, 2 * m + 5];
    let mut cases = 0u64;
    for &n_old in &olds {
        for &k in &allocs {
            for &f in &frees {
                let mut bump = PageNumber(1_000_000);
                let mut next_free = 10u32;
                let disk = tempfile::tempfile().unwrap();
                disk.set_len(6_000_000u64 * PAGE_SIZE as u64).unwrap();
                let mut fl = build_list(&page_pool, n_old, &mut bump, &mut next_free, &disk);
                // [C10/C16] what a reopen reads back from the file is the list that was written
                {
                    let back = FreeList::read(&page_pool, &disk, fl.head_pn()).unwrap();
                    assert!(back.portions == fl.portions && back.len == fl.len && back.fragmented == fl.fragmented && !back.pop,
                        "old={}: FreeList::read does not give back the list that was committed (len {} vs {}, fragmented {} vs {})", n_old, back.len, fl.len, back.fragmented, fl.fragmented);
                }
                assert_eq!(fl.len, n_old, "len after building {}", n_old);
                let old_tracked = tracked(&fl);
                let old_heads: std::collections::BTreeSet<u32> = fl.portions.iter().map(|p| p.0 .0).collect();
                // on-disk content of every free-list page of the previous image: (prev, entries)
                let old_pages: std::collections::BTreeMap<u32, (PageNumber, Vec<PageNumber>)> = fl
                    .portions
                    .iter()
                    .enumerate()
                    .map(|(i, p)| (p.0 .0, (if i == 0 { FREELIST_EMPTY } else { fl.portions[i - 1].0 }, p.1.clone())))
                    .collect();
                let old_entries: std::collections::BTreeSet<u32> = fl.portions.iter().flat_map(|p| p.1.iter().map(|x| x.0)).collect();
                // pages handed to allocators during the sync: the first k pops of the clean list
                let k_eff = std::cmp::min(k, n_old);
                let handed: Vec<u32> = (0..k_eff).map(|i| fl.as_clean().get_nth_pop(i).0).collect();
                let discarded = fl.discard(k);
                assert_eq!(discarded, k_eff);
                let handed_set: std::collections::BTreeSet<u32> = handed.iter().copied().collect();
                assert_eq!(handed_set.len(), k_eff, "get_nth_pop handed out a page twice");
                // what the previous image still needs: everything it tracked
                let bump_before = bump.0;
                let freed: Vec<PageNumber> = (0..f).map(|i| PageNumber(5_000_000 + i as u32)).collect();
                let written = fl.commit(&page_pool, freed.clone(), &mut bump);
                cases += 1;
                let ctx = format!("old={} allocated={} freed={}", n_old, k, f);
                // [C10/C16] read back from the file after this sync's pages went out
                write_pages(&disk, &written);
                {
                    let back = FreeList::read(&page_pool, &disk, fl.head_pn()).unwrap();
                    assert!(back.portions == fl.portions, "{}: FreeList::read gives back other portions than the committed list", ctx);
                    assert!(back.len == fl.len && back.fragmented == fl.fragmented && !back.pop,
                        "{}: FreeList::read gives back len {} / fragmented {}, the committed list has {} / {}", ctx, back.len, back.fragmented, fl.len, fl.fragmented);
                }
                // ---- C17: copy-on-write
                let mut decoded_written: Vec<(PageNumber, PageNumber, Vec<PageNumber>)> = Vec::new();
                for (pn, page) in written {
                    let (prev, items) = decode_free_list_page(page, u32::MAX);
                    decoded_written.push((pn, prev, items));
                }
                for (pn, prev, items) in &decoded_written {
                    assert!(pn.0 != 0, "{}: wrote the nil page", ctx);
                    assert!(!handed_set.contains(&pn.0), "{}: free-list page written to {}, which was handed to an allocator in this sync", ctx, pn.0);
                    if let Some((old_prev, old_items)) = old_pages.get(&pn.0) {
                        // a free-list page of the previous image may only be rewritten in place with
                        // byte-identical content (idempotent); anything else destroys the image
                        assert!(prev == old_prev && items == old_items,
                            "{}: free-list page {} of the previous image was overwritten with different content before the meta swap", ctx, pn.0);
                    } else {
                        let from_old_entries = old_entries.contains(&pn.0);
                        let from_bump = pn.0 >= bump_before && pn.0 < bump.0;
                        assert!(from_old_entries || from_bump, "{}: free-list page written to {} which was neither free in the previous image nor beyond its bump", ctx, pn.0);
                    }
                }
                // ---- C19: conservation, no duplicates
                let new_tracked = tracked(&fl);
                let n_listed: usize = fl.portions.iter().map(|p| p.1.len() + 1).sum();
                assert_eq!(new_tracked.len(), n_listed, "{}: a page is tracked twice", ctx);
                let mut expect: std::collections::BTreeSet<u32> = old_tracked.difference(&handed_set).copied().collect();
                expect.extend(freed.iter().map(|p| p.0));
                expect.extend(bump_before..bump.0);
                if decoded_written.is_empty() {
                    assert!(k_eff == 0 && f == 0, "{}: nothing written although the list changed", ctx);
                } else {
                    assert_eq!(new_tracked, expect, "{}: tracked pages are not (old - allocated) + freed + bumped", ctx);
                }
                // ---- C16: accounting and on-disk format
                let (len, fragmented) = len_and_fragmented(&fl.portions);
                assert_eq!((fl.len, fl.fragmented), (len, fragmented), "{}", ctx);
                let total: usize = fl.portions.iter().map(|p| p.1.len()).sum();
                assert_eq!(fl.len, total, "{}: len is not the number of entries", ctx);
                assert!(!fl.pop, "{}: list not clean after commit", ctx);
                for (i, p) in fl.portions.iter().enumerate() {
                    assert!(!p.1.is_empty() && p.1.len() <= m, "{}: portion {} has {} entries", ctx, i, p.1.len());
                }
                // every portion that is new or changed has been written, and its last write decodes to it
                for (idx, p) in fl.portions.iter().enumerate() {
                    let expect_prev = if idx == 0 { FREELIST_EMPTY } else { fl.portions[idx - 1].0 };
                    let last = decoded_written.iter().rev().find(|w| w.0 == p.0);
                    match last {
                        Some((_, prev, items)) => {
                            assert!(*prev == expect_prev && *items == p.1, "{}: the page written for portion {} does not decode to it", ctx, idx);
                        }
                        None => {
                            let unchanged = old_pages.get(&p.0 .0).map_or(false, |(op, oi)| *op == expect_prev && *oi == p.1);
                            assert!(unchanged, "{}: portion {} (page {}) changed but was not written", ctx, idx, p.0 .0);
                        }
                    }
                }
            }
        }
    }
    println!("native_enum_free_list_commit_contract: {} calls", cases);
}

#[cfg(test)]
include!("/verif/.build/playback/free_list.inc");

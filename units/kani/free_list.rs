//! Kani harnesses for nomt/src/beatree/allocator/free_list.rs (compiled into the real crate only under cfg(kani)).
#![allow(unused_imports, dead_code)]
use super::*;

#[cfg(test)]
include!("/verif/.build/playback/free_list.inc");

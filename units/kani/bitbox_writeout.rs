//! K1: effect-order and error-propagation contracts of nomt/src/bitbox/writeout.rs, checked on the
//! real functions with std I/O stubbed by a ghost log that can fail at any position.
#![allow(unused_imports, dead_code)]
use super::*;
use crate::io::verif_kani as gh;

/// write_wal: Ok  ==> trace == [set_len 0, seek 0, write(len), fsync] (the blob is durable before Ok)
///            any failing operation ==> Err, and nothing is issued after the failing one.
#[kani::proof]
#[kani::unwind(3)]
#[kani::stub(std::fs::File::set_len, gh::stub_set_len)]
#[kani::stub(std::fs::File::sync_all, gh::stub_sync_all)]
#[kani::stub(<&std::fs::File as std::io::Seek>::seek, gh::stub_seek)]
#[kani::stub(<&std::fs::File as std::io::Write>::write, gh::stub_write)]
fn write_wal_effects() {
    let f = gh::kani_file(7);
    let blob: [u8; 8] = kani::any();
    let n: usize = kani::any();
    kani::assume(n >= 1 && n <= 8);
    let r = write_wal(&f, &blob[..n]);
    let k = gh::log_len();
    if r.is_ok() {
        assert!(gh::failed_at() == usize::MAX);
        assert!(k == 4);
        assert!(gh::log_at(0) == gh::OP_SET_LEN && gh::log_arg(0) == 0);
        assert!(gh::log_at(1) == gh::OP_SEEK && gh::log_arg(1) == 0);
        assert!(gh::log_at(2) == gh::OP_WRITE && gh::log_arg(2) == n as u64);
        assert!(gh::log_at(3) == gh::OP_FSYNC);
    } else {
        // the error is the injected one and nothing was issued after it
        assert!(gh::failed_at() != usize::MAX);
        assert!(gh::failed_at() == k - 1);
    }
    // no failure is swallowed
    assert!((gh::failed_at() != usize::MAX) == r.is_err());
    kani::cover!(r.is_ok(), "success path reachable");
    kani::cover!(r.is_err() && k == 3, "failure of the write reachable");
}

/// truncate_wal(do_sync): set_len 0, seek 0, fsync iff do_sync; failures propagate.
#[kani::proof]
#[kani::stub(std::fs::File::set_len, gh::stub_set_len)]
#[kani::stub(std::fs::File::sync_all, gh::stub_sync_all)]
#[kani::stub(<&std::fs::File as std::io::Seek>::seek, gh::stub_seek)]
fn truncate_wal_effects() {
    let f = gh::kani_file(7);
    let do_sync: bool = kani::any();
    let r = truncate_wal(&f, do_sync);
    let k = gh::log_len();
    if r.is_ok() {
        assert!(k == if do_sync { 3 } else { 2 });
        assert!(gh::log_at(0) == gh::OP_SET_LEN && gh::log_arg(0) == 0);
        assert!(gh::log_at(1) == gh::OP_SEEK && gh::log_arg(1) == 0);
        if do_sync {
            assert!(gh::log_at(2) == gh::OP_FSYNC);
        }
    } else {
        assert!(gh::failed_at() == k - 1);
    }
    assert!((gh::failed_at() != usize::MAX) == r.is_err());
    kani::cover!(r.is_ok() && do_sync, "synced success reachable");
    kani::cover!(r.is_err(), "failure reachable");
}

// write_ht itself is proved in Verus (unit v8_write_ht); a Kani harness over it does not terminate
// in reasonable time (crossbeam channel and page-pool drop glue dominate symbolic execution).
// ---- write_ht: native replay scenario (run with `cargo kani playback`, real I/O pool) ------------
/// The hash-table file is opened read-only, so every page write fails with EBADF.  `write_ht` must
/// report the failure (C14: no I/O failure is ever swallowed).
#[cfg(test)]
#[test]
fn replay_write_ht_reports_failed_page_write() {
    let dir = std::env::temp_dir().join(format!("verif-write-ht-{}", std::process::id()));
    let _ = std::fs::remove_dir_all(&dir);
    std::fs::create_dir_all(&dir).unwrap();
    let path = dir.join("ht");
    std::fs::write(&path, vec![0u8; 4096 * 4]).unwrap();
    let ht_fd = std::fs::OpenOptions::new().read(true).open(&path).unwrap(); // read-only!
    let page_pool = crate::io::PagePool::new();
    let io_pool = crate::io::start_io_pool(1, page_pool.clone());
    let page = Arc::new(page_pool.alloc_fat_page());
    let r = write_ht(io_pool.make_handle(), &ht_fd, vec![(1, page)]);
    let _ = std::fs::remove_dir_all(&dir);
    assert!(r.is_err(), "write_ht returned Ok although the page write failed (EBADF)");
}

#[cfg(test)]
include!("/verif/.build/playback/bitbox_writeout.inc");


#[cfg(test)]
include!("/verif/.build/playback/bitbox_writeout.inc");

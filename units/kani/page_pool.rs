//! Page constructors for harnesses: plain heap buffers instead of the mmap-backed pool.
#![allow(unused_imports, dead_code)]
use super::*;

/// A 4096-byte page backed by a leaked heap allocation (contents zero).
pub(crate) fn kani_page() -> Page {
    let b: Box<[u8; PAGE_SIZE]> = Box::new([0u8; PAGE_SIZE]);
    Page(Box::into_raw(b) as *mut u8)
}

/// A pool handle for harness pages.  `alloc`/`dealloc` are stubbed by the harnesses, so the pool's
/// own state is never used; one extra strong reference is leaked so that `Inner::drop` (munmap of
/// regions) is never reached.
pub(crate) fn kani_page_pool() -> PagePool {
    let inner = Inner {
        // all-null region table (AtomicPtr<u8> is valid when zeroed)
        regions: unsafe { std::mem::zeroed() },
        n_regions: AtomicU32::new(0),
        freelist: RwLock::new(Vec::new()),
        // all-null bucket table == ThreadLocal::new() without its initialisation loop
        tls_freelist: unsafe { std::mem::zeroed() },
    };
    let pool = PagePool { inner: Arc::new(inner) };
    std::mem::forget(pool.clone());
    pool
}

/// A `FatPage` over a heap buffer (contents zero).
pub(crate) fn kani_fat_page(pool: &PagePool) -> FatPage {
    FatPage { page_pool: pool.clone(), page: kani_page() }
}

pub(crate) fn kani_fat_page_arc() -> std::sync::Arc<FatPage> {
    std::sync::Arc::new(kani_fat_page(&kani_page_pool()))
}

/// Stub for `PagePool::dealloc`: harness pages are leaked heap buffers, nothing to return.
pub(crate) fn stub_dealloc(_pool: &PagePool, _page: Page) {}

/// Stub for `PagePool::alloc`: a fresh zeroed 4096-byte buffer.
pub(crate) fn stub_alloc(_pool: &PagePool) -> Page {
    kani_page()
}

#[cfg(test)]
include!("/verif/.build/playback/page_pool.inc");

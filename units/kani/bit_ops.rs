//! K6 / V4: contracts of nomt/src/beatree/ops/bit_ops.rs checked on the compiled functions.
#![allow(unused_imports, dead_code)]
use super::*;

fn bit(k: &[u8], i: usize) -> bool {
    (k[i / 8] >> (7 - (i % 8))) & 1 == 1
}

/// prefix_len(a, b) is the length of the longest common bit prefix (MSB first):
/// all bits below it agree, and the bit at it (if < 256) differs.  Loops are bounded by the key
/// width (32 x 8): complete.
#[kani::proof]
#[kani::unwind(34)]
fn prefix_len_is_lcp() {
    let a: Key = kani::any();
    let b: Key = kani::any();
    let r = prefix_len(&a, &b);
    assert!(r <= 256);
    let i: usize = kani::any();
    kani::assume(i < 256);
    if i < r {
        assert!(bit(&a, i) == bit(&b, i));
    }
    if r < 256 {
        assert!(bit(&a, r) != bit(&b, r));
    }
    assert!((r == 256) == (a == b));
    kani::cover!(r == 256, "equal keys reachable");
    kani::cover!(r == 13, "mid-byte divergence reachable");
}

/// separate(a, b) for a < b: a < s <= b, s agrees with b on its first lcp+1 bits and is zero
/// afterwards (the shortest separator).  Complete.
#[kani::proof]
#[kani::unwind(34)]
fn separate_is_shortest_separator() {
    let a: Key = kani::any();
    let b: Key = kani::any();
    kani::assume(a < b);
    let s = separate(&a, &b);
    let l = prefix_len(&a, &b);
    assert!(l < 256);
    assert!(a < s);
    assert!(s <= b);
    let i: usize = kani::any();
    kani::assume(i < 256);
    if i <= l {
        assert!(bit(&s, i) == bit(&b, i));
    } else {
        assert!(!bit(&s, i));
    }
    assert!(separator_len(&s) == l + 1);
    kani::cover!(l == 0, "divergence at the first bit reachable");
    kani::cover!(l == 255, "divergence at the last bit reachable");
}

/// separator_len(k) = max(1, 256 - number of trailing zero bits).  Complete.
#[kani::proof]
#[kani::unwind(34)]
fn separator_len_spec() {
    let k: Key = kani::any();
    let r = separator_len(&k);
    assert!(r >= 1 && r <= 256);
    let j: usize = kani::any();
    kani::assume(j < 256);
    if k == [0u8; 32] {
        assert!(r == 1);
    } else {
        assert!(bit(&k, r - 1));
        if j >= r {
            assert!(!bit(&k, j));
        }
    }
    kani::cover!(r == 256, "full-length separator reachable");
    kani::cover!(r == 9, "mid-byte separator reachable");
}

/// bitwise_memcpy: for every j < len, destination bit dstart+j == source bit sstart+j; every other
/// destination bit is unchanged.  Source of `nbytes` bytes (8..40: 1 to 5 chunks, which covers every
/// single-separator use: <= 256 bits at offset < 8), bit offsets 0..8, any length that fits,
/// destination of any sufficient length up to 48 bytes.
fn memcpy_contract(nbytes: usize) {
    let src: [u8; 72] = kani::any();
    let dst0: [u8; 80] = kani::any();
    let mut dst = dst0;
    let sstart: usize = kani::any();
    let dstart: usize = kani::any();
    let len: usize = kani::any();
    let dlen: usize = kani::any();
    kani::assume(sstart < 8 && dstart < 8);
    kani::assume(len >= 1 && len <= 576);
    // the source is the smallest multiple of 8 bytes containing the bits
    kani::assume(sstart + len <= nbytes * 8 && sstart + len > (nbytes - 8) * 8);
    kani::assume(dlen <= 80 && dlen * 8 >= dstart + len);
    bitwise_memcpy(&mut dst[..dlen], dstart, &src[..nbytes], sstart, len);
    let j: usize = kani::any();
    kani::assume(j < len);
    assert!(bit(&dst, dstart + j) == bit(&src, sstart + j));
    let q: usize = kani::any();
    kani::assume(q < 80 * 8);
    if q < dstart || q >= dstart + len {
        assert!(bit(&dst, q) == bit(&dst0, q));
    }
    kani::cover!(dstart > sstart, "right shift reachable");
    kani::cover!(dstart < sstart, "left shift reachable");
}

#[kani::proof]
#[kani::unwind(10)]
fn bitwise_memcpy_1chunk() {
    memcpy_contract(8);
}

#[kani::proof]
#[kani::unwind(10)]
fn bitwise_memcpy_2chunks() {
    memcpy_contract(16);
}

#[kani::proof]
#[kani::unwind(10)]
fn bitwise_memcpy_3chunks() {
    memcpy_contract(24);
}

#[kani::proof]
#[kani::unwind(10)]
fn bitwise_memcpy_4chunks() {
    memcpy_contract(32);
}

#[kani::proof]
#[kani::unwind(10)]
fn bitwise_memcpy_5chunks() {
    memcpy_contract(40);
}

macro_rules! memcpy_harness {
    ($name:ident, $n:expr) => {
        #[kani::proof]
        #[kani::unwind(12)]
        fn $name() {
            memcpy_contract($n * 8);
        }
    };
}
memcpy_harness!(bitwise_memcpy_6chunks, 6);
memcpy_harness!(bitwise_memcpy_7chunks, 7);
memcpy_harness!(bitwise_memcpy_8chunks, 8);
memcpy_harness!(bitwise_memcpy_9chunks, 9);

#[cfg(test)]
include!("/verif/.build/playback/bit_ops.inc");

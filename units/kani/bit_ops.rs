//! Kani harnesses for nomt/src/beatree/ops/bit_ops.rs (compiled into the real crate only under cfg(kani)).
#![allow(unused_imports, dead_code)]
use super::*;

#[cfg(test)]
include!("/verif/.build/playback/bit_ops.inc");

//! Kani harnesses for nomt/src/beatree/mod.rs (compiled into the real crate only under cfg(kani)).
#![allow(unused_imports, dead_code)]
use super::*;

#[cfg(test)]
include!("/verif/.build/playback/beatree_mod.inc");

// ---- the value files account for every page: bounded native enumeration ----------------------------
// C19 / C16 / C17 at the level of the files: after a history, reading `meta`, `bbn` and `ln` back with
// the crate's own decoders (FreeList::read, ops::reconstruct, the node readers, overflow::delete as
// the walker of a multi-page value), every page below the allocation frontier of a value file is
// either referenced by the current tree exactly once or tracked by that file's free list, never both;
// every key lies in exactly one leaf, inside the range its separators give it; and the keys and values
// found in the leaves are the model's.
#[cfg(test)]
pub(crate) fn native_page_accounting(dir: &std::path::Path, model: &std::collections::BTreeMap<Key, Vec<u8>>) -> std::result::Result<(), String> {
    use crate::beatree::allocator::{Store, StoreReader, FREELIST_EMPTY};
    use crate::beatree::branch::node::get_key;
    use crate::beatree::leaf::node::LeafNode;
    use std::collections::{BTreeMap, BTreeSet};
    let pool = PagePool::new();
    // the four value-file fields of the meta page, at their documented offsets (store/meta.rs is private
    // to `store`; K2 proves its codec)
    struct ValueFileMeta { ln_freelist_pn: u32, ln_bump: u32, bbn_freelist_pn: u32, bbn_bump: u32 }
    let meta = {
        let raw = std::fs::read(dir.join("meta")).map_err(|e| e.to_string())?;
        let f = |o: usize| u32::from_le_bytes(raw[o..o + 4].try_into().unwrap());
        ValueFileMeta { ln_freelist_pn: f(8), ln_bump: f(12), bbn_freelist_pn: f(16), bbn_bump: f(20) }
    };
    let ln = Arc::new(File::open(dir.join("ln")).map_err(|e| e.to_string())?);
    let bbn = Arc::new(File::open(dir.join("bbn")).map_err(|e| e.to_string())?);
    let head = |pn: u32| Some(PageNumber(pn)).filter(|&x| x != FREELIST_EMPTY);
    let ln_store = Store::open(&pool, ln.clone(), PageNumber(meta.ln_bump), head(meta.ln_freelist_pn)).map_err(|e| format!("ln free list unreadable: {}", e))?;
    let bbn_store = Store::open(&pool, bbn.clone(), PageNumber(meta.bbn_bump), head(meta.bbn_freelist_pn)).map_err(|e| format!("bbn free list unreadable: {}", e))?;
    let ln_free = ln_store.all_tracked_freelist_pages();
    let bbn_free = bbn_store.all_tracked_freelist_pages();
    let index = ops::reconstruct(bbn.clone(), &pool, &bbn_free, PageNumber(meta.bbn_bump)).map_err(|e| format!("branch index cannot be rebuilt: {}", e))?;
    let reader = StoreReader::new(ln_store.clone(), pool.clone());
    let mut bbn_used: BTreeSet<u32> = BTreeSet::new();
    let mut ln_used: BTreeMap<u32, String> = BTreeMap::new();
    let mut found: BTreeMap<Key, Vec<u8>> = BTreeMap::new();
    let branches: Vec<(Key, Arc<branch::BranchNode>)> = index.into_iter().collect();
    let mut prev_key: Option<Key> = None;
    for (bi, (bsep, b)) in branches.iter().enumerate() {
        let pn = b.bbn_pn();
        if pn == 0 || pn >= meta.bbn_bump { return Err(format!("branch page {} outside 1..bbn_bump ({})", pn, meta.bbn_bump)); }
        if bbn_free.contains(&PageNumber(pn)) { return Err(format!("branch page {} is in use and on the bbn free list", pn)); }
        if !bbn_used.insert(pn) { return Err(format!("branch page {} used twice", pn)); }
        let n = b.n() as usize;
        if n == 0 { return Err(format!("branch page {} is empty", pn)); }
        let next_branch_sep = branches.get(bi + 1).map(|x| x.0);
        for i in 0..n {
            let sep = get_key(b, i);
            if i == 0 && sep != *bsep { return Err(format!("branch page {}: indexed under a key that is not its first separator", pn)); }
            if i > 0 && get_key(b, i - 1) >= sep { return Err(format!("branch page {}: separators {} and {} do not ascend", pn, i - 1, i)); }
            let upper = if i + 1 < n { Some(get_key(b, i + 1)) } else { next_branch_sep };
            let leaf_pn = b.node_pointer(i);
            if leaf_pn == 0 || leaf_pn >= meta.ln_bump { return Err(format!("leaf page {} outside 1..ln_bump ({})", leaf_pn, meta.ln_bump)); }
            if ln_free.contains(&PageNumber(leaf_pn)) { return Err(format!("leaf page {} is in use and on the ln free list", leaf_pn)); }
            if let Some(w) = ln_used.insert(leaf_pn, format!("leaf under branch page {}", pn)) { return Err(format!("ln page {} used twice (leaf and {})", leaf_pn, w)); }
            let leaf = LeafNode { inner: reader.query(PageNumber(leaf_pn)) };
            if leaf.n() == 0 { return Err(format!("leaf page {} is empty", leaf_pn)); }
            for c in 0..leaf.n() {
                let k = leaf.key(c);
                if prev_key.map_or(false, |p| p >= k) { return Err(format!("keys do not ascend across leaves at leaf page {} cell {}", leaf_pn, c)); }
                prev_key = Some(k);
                if k < sep && !(bi == 0 && i == 0) { return Err(format!("leaf page {}: key below the leaf's separator", leaf_pn)); }
                if upper.map_or(false, |u| k >= u) { return Err(format!("leaf page {}: key at or above the next separator", leaf_pn)); }
                let (v, overflow) = leaf.value(c);
                let value = if overflow {
                    let mut pages = Vec::new();
                    ops::overflow::delete(v, &reader, &mut pages);
                    for p in &pages {
                        if p.0 == 0 || p.0 >= meta.ln_bump { return Err(format!("overflow page {} outside 1..ln_bump", p.0)); }
                        if ln_free.contains(p) { return Err(format!("overflow page {} is in use and on the ln free list", p.0)); }
                        if let Some(w) = ln_used.insert(p.0, format!("overflow page of a value in leaf page {}", leaf_pn)) { return Err(format!("ln page {} used twice (overflow page and {})", p.0, w)); }
                    }
                    ops::overflow::read_blocking(v, &reader)
                } else {
                    v.to_vec()
                };
                found.insert(k, value);
            }
        }
    }
    for pn in 1..meta.ln_bump {
        if !ln_used.contains_key(&pn) && !ln_free.contains(&PageNumber(pn)) { return Err(format!("ln page {} (below ln_bump {}) is neither in use nor on the free list", pn, meta.ln_bump)); }
    }
    for pn in 1..meta.bbn_bump {
        if !bbn_used.contains(&pn) && !bbn_free.contains(&PageNumber(pn)) { return Err(format!("bbn page {} (below bbn_bump {}) is neither in use nor on the free list", pn, meta.bbn_bump)); }
    }
    for p in &ln_free { if p.0 == 0 || p.0 >= meta.ln_bump { return Err(format!("ln free list tracks page {} outside 1..ln_bump", p.0)); } }
    for p in &bbn_free { if p.0 == 0 || p.0 >= meta.bbn_bump { return Err(format!("bbn free list tracks page {} outside 1..bbn_bump", p.0)); } }
    if found != *model {
        let missing = model.keys().filter(|k| !found.contains_key(*k)).count();
        let extra = found.keys().filter(|k| !model.contains_key(*k)).count();
        return Err(format!("the leaves hold {} keys, the model {}: {} missing, {} unexpected, {} with another value", found.len(), model.len(), missing, extra,
            model.iter().filter(|(k, v)| found.get(*k).map_or(false, |f| f != *v)).count()));
    }
    Ok(())
}

/// Bounded native enumeration (not a proof): four scripted histories (clustered keys with 1000-byte
/// values: fill / thin out / refill / delete everything / refill; multi-page values created, shrunk,
/// grown and deleted; keys spread over several commit workers with merges across their ranges; a
/// partly prefix-compressed branch node whose uncompressed part is rewritten) x 1 and 3 commit workers; after EVERY commit the
/// store is closed, the files are checked by `native_page_accounting` and the store is reopened.
#[cfg(test)]
#[test]
fn native_enum_store_page_accounting() {
    use crate::hasher::Blake3Hasher;
    use crate::{KeyReadWrite, Nomt, Options, SessionParams};
    use std::collections::BTreeMap;
    let key = |group: u8, i: u16| -> Key {
        let mut k = [0u8; 32];
        for b in k.iter_mut().take(6) { *b = group; }
        k[6..8].copy_from_slice(&i.to_be_bytes());
        k
    };
    // a history is a list of batches of (key, new value or delete)
    let mut histories: Vec<Vec<Vec<(Key, Option<Vec<u8>>)>>> = Vec::new();
    {
        // fill, thin out, refill elsewhere, delete everything, refill a little
        let mut h = Vec::new();
        h.push((0..240u16).map(|i| (key(0x20, i), Some(vec![1u8; 900 + (i % 7) as usize * 30]))).collect::<Vec<_>>());
        h.push((0..240u16).filter(|i| i % 3 != 0).map(|i| (key(0x20, i), None)).collect());
        h.push((0..60u16).map(|i| (key(0x90, i), Some(vec![2u8; 1000]))).collect());
        h.push((0..240u16).filter(|i| i % 3 == 0).map(|i| (key(0x20, i), None)).chain((0..60u16).map(|i| (key(0x90, i), None))).collect());
        h.push((0..9u16).map(|i| (key(0x50, i), Some(vec![3u8; 700]))).collect());
        h.push((0..40u16).map(|i| (key(0x50, 100 + i), Some(vec![4u8; 1200]))).collect());
        histories.push(h);
    }
    {
        // multi-page values created, overwritten by shorter / longer ones, deleted, next to small cells
        let mut h = Vec::new();
        h.push((0..30u16).map(|i| (key(0x33, i), Some(vec![5u8; if i % 5 == 0 { 9000 + i as usize * 100 } else { 300 }]))).collect::<Vec<_>>());
        h.push((0..30u16).filter(|i| i % 10 == 0).map(|i| (key(0x33, i), Some(vec![6u8; 40]))).chain((0..30u16).filter(|i| i % 10 == 5).map(|i| (key(0x33, i), Some(vec![7u8; 30000])))).collect());
        h.push((0..30u16).filter(|i| i % 2 == 1).map(|i| (key(0x33, i), None)).collect());
        h.push((0..20u16).map(|i| (key(0x33, 200 + i), Some(vec![8u8; 5000]))).collect());
        h.push((0..30u16).map(|i| (key(0x33, i), None)).chain((0..20u16).map(|i| (key(0x33, 200 + i), None))).collect());
        histories.push(h);
    }
    {
        // keys spread over the key space (several commit workers really get work), deletions that make
        // neighbouring leaves merge across worker ranges
        let spread = |i: u16| -> Key { let mut k = [0u8; 32]; k[0] = (i * 4) as u8; k[1] = (i >> 6) as u8; k[2] = 1; k };
        let mut h = Vec::new();
        h.push((0..64u16).map(|i| (spread(i), Some(vec![9u8; 1100]))).collect::<Vec<_>>());
        h.push([21u16, 22, 23, 24, 40, 41, 42].iter().map(|i| (spread(*i), None)).collect());
        h.push((0..64u16).filter(|i| i % 4 == 1).map(|i| (spread(i), Some(vec![10u8; 200]))).collect());
        h.push((0..64u16).filter(|i| i % 4 != 2).map(|i| (spread(i), None)).collect());
        h.push((0..64u16).filter(|i| i % 4 == 2).map(|i| (spread(i), None)).collect());
        histories.push(h);
    }
    {
        // a branch node that is only partly prefix-compressed: a long run of separators sharing 25 zero bytes with the all-zero first separator,
        // then separators that share nothing with them (stored uncompressed behind the run); leaves
        // under the uncompressed separators rewritten in place, most of the run deleted, a key that
        // sorts between the two groups added
        let clustered = |p: u8, i: u16| -> Key { let mut k = [p; 32]; k[25..27].copy_from_slice(&i.to_be_bytes()); for b in k.iter_mut().skip(27) { *b = 0; } k };
        let mut h = Vec::new();
        h.push((0..420u16).map(|i| (clustered(0x00, i), Some(vec![11u8; 1000]))).chain((0..24u16).map(|i| (clustered(0xEE, i), Some(vec![12u8; 1000])))).collect::<Vec<_>>());
        h.push(vec![(clustered(0xEE, 1), Some(vec![13u8; 1000]))]);
        h.push([4u16, 10, 16].iter().map(|i| (clustered(0xEE, *i), Some(vec![13u8; 1000]))).collect());
        h.push((0..420u16).filter(|i| i % 8 != 0).map(|i| (clustered(0x00, i), None)).chain((0..24u16).map(|i| (clustered(0xEE, i), Some(vec![14u8; 1000])))).collect());
        h.push(vec![({ let mut k = [0u8; 32]; k[0] = 0x40; k }, Some(vec![15u8; 500]))]);
        h.push((0..24u16).filter(|i| i % 2 == 0).map(|i| (clustered(0xEE, i), Some(vec![16u8; 900]))).collect());
        histories.push(h);
    }
    let mut commits = 0;
    for (hi, history) in histories.iter().enumerate() {
        for workers in [1usize, 3] {
            let dir = tempfile::tempdir().unwrap();
            let path = dir.path().join("db");
            let open = || {
                let mut o = Options::new();
                o.path(&path);
                o.commit_concurrency(workers);
                o.bitbox_seed([5; 16]);
                o.hashtable_buckets(4096);
                Nomt::<Blake3Hasher>::open(o).unwrap()
            };
            let mut model: BTreeMap<Key, Vec<u8>> = BTreeMap::new();
            let mut nomt = open();
            for (bi, batch) in history.iter().enumerate() {
                let session = nomt.begin_session(SessionParams::default());
                let mut actuals: Vec<(Key, KeyReadWrite)> = batch.iter().map(|(k, v)| (*k, KeyReadWrite::Write(v.clone()))).collect();
                actuals.sort_by_key(|(k, _)| *k);
                for (k, _) in &actuals { session.warm_up(*k); }
                session.finish(actuals).unwrap().commit(&nomt).unwrap();
                for (k, v) in batch {
                    match v { Some(v) => { model.insert(*k, v.clone()); } None => { model.remove(k); } }
                }
                drop(nomt);
                if let Err(e) = native_page_accounting(&path, &model) {
                    panic!("value files after commit {} of history {} with {} commit worker(s): {}", bi, hi, workers, e);
                }
                nomt = open();
                commits += 1;
            }
            drop(nomt);
        }
    }
    assert!(commits == 2 * (6 + 5 + 5 + 6));
}

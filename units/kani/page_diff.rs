//! Kani harnesses for nomt/src/page_diff.rs (compiled into the real crate only under cfg(kani)).
#![allow(unused_imports, dead_code)]
use super::*;

#[cfg(test)]
include!("/verif/.build/playback/page_diff.inc");

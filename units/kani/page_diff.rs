//! K2 (page diff): nomt/src/page_diff.rs - the bitfield the WAL uses to say which nodes of a merkle
//! page changed, and the pack/unpack pair WAL writing and WAL replay rely on (C16).
#![allow(unused_imports, dead_code)]
use super::*;

/// from_bytes / as_bytes are inverse on the 126 usable bits; exactly the two reserved bits make
/// from_bytes reject.  Loop-free over the full domain: complete.
#[kani::proof]
fn page_diff_bytes_roundtrip() {
    let b: [u8; 16] = kani::any();
    let reserved = b[15] & 0xC0 != 0;
    match PageDiff::from_bytes(b) {
        None => assert!(reserved),
        Some(d) => {
            assert!(!reserved);
            assert!(d.as_bytes() == b);
            assert!(!d.cleared());
            let i: usize = kani::any();
            kani::assume(i < 126);
            assert!(d.changed(i) == ((b[i / 8] >> (i % 8)) & 1 == 1));
        }
    }
    kani::cover!(reserved, "rejecting input reachable");
}

/// set_changed(i) sets exactly bit i, erases the clear marker, leaves every other bit alone;
/// count() is the number of set bits.  Complete.
#[kani::proof]
fn page_diff_set_changed_frame() {
    let b: [u8; 16] = kani::any();
    kani::assume(b[15] & 0xC0 == 0);
    let mut d = PageDiff::from_bytes(b).unwrap();
    let before = d.clone();
    let i: usize = kani::any();
    kani::assume(i < 126);
    if kani::any() {
        d.set_cleared();
        assert!(d.cleared());
    }
    d.set_changed(i);
    assert!(d.changed(i));
    assert!(!d.cleared());
    let j: usize = kani::any();
    kani::assume(j < 126 && j != i);
    assert!(d.changed(j) == before.changed(j));
    assert!(d.count() == before.count() + if before.changed(i) { 0 } else { 1 });
    kani::cover!(before.changed(i), "already-set bit reachable");
}

// pack_changed_nodes / unpack_changed_nodes (iterator chain over trailing_zeros + symbolic slot
// offsets) ended with CBMC status ERROR (memory) even when cut to 8 slots and 3 changed nodes; they
// are not under contract.

#[cfg(test)]
include!("/verif/.build/playback/page_diff.inc");

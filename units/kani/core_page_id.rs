//! Kani harnesses for core/src/page_id.rs (compiled into the real crate only under cfg(kani)).
#![allow(unused_imports, dead_code)]
use super::*;

#[cfg(test)]
include!("/verif/.build/playback/core_page_id.inc");

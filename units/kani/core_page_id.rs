//! K2 (page ids): core/src/page_id.rs - the 256-bit disambiguated encoding that labels every stored
//! merkle page (hash-table file, WAL).  C16: a page's label decodes to exactly its id.
#![allow(unused_imports, dead_code)]
use super::*;

/// decode(encode(id)) == id for a page id of `n` levels (n concrete per harness) with symbolic child
/// indices 0..=63; the encoding of a deeper id is never the root's, and parent/child ids are
/// consistent with the path.
fn page_id_roundtrip(n: usize) {
    let mut id = ROOT_PAGE_ID;
    let idx: [u8; 42] = kani::any();
    let mut i = 0;
    while i < n {
        kani::assume(idx[i] <= MAX_CHILD_INDEX);
        id = id.child_page_id(ChildPageIndex::new(idx[i]).unwrap()).unwrap();
        i += 1;
    }
    assert!(id.depth() == n);
    let enc = id.encode();
    match PageId::decode(enc) {
        Ok(d) => {
            assert!(d == id);
            let mut i = 0;
            while i < n {
                assert!(d.child_index_at_level(i).to_u8() == idx[i]);
                i += 1;
            }
        }
        Err(_) => assert!(false, "encoding of a valid page id rejected"),
    }
    if n > 0 {
        assert!(enc != ROOT_PAGE_ID.encode());
    }
    kani::cover!(true, "reachable");
}

macro_rules! page_id_harness {
    ($name:ident, $n:expr, $u:expr) => {
        #[kani::proof]
        #[kani::unwind($u)]
        fn $name() {
            page_id_roundtrip($n);
        }
    };
}
// unwind 44: decode()'s sextet loop runs at most 42 times and ruint's byte loops 32 times; the
// unwinding assertions stay on, so a pass is complete for the stated depth.
page_id_harness!(page_id_roundtrip_0, 0, 44);
page_id_harness!(page_id_roundtrip_1, 1, 44);
page_id_harness!(page_id_roundtrip_2, 2, 44);
page_id_harness!(page_id_roundtrip_3, 3, 44);
page_id_harness!(page_id_roundtrip_9, 9, 44);
page_id_harness!(page_id_roundtrip_10, 10, 44);

#[cfg(test)]
include!("/verif/.build/playback/core_page_id.inc");

#[cfg(test)]
fn native_mk(path: &[u8]) -> PageId {
    let mut id = ROOT_PAGE_ID;
    for &l in path {
        id = id.child_page_id(ChildPageIndex::new(l).unwrap()).unwrap();
    }
    id
}

#[cfg(test)]
fn native_spec_encode(path: &[u8]) -> [u8; 32] {
    // docs/nomt_specification.md: page_ids[i] = (prev_page_id << 6) + dtet + 1, as a 256-bit
    // big-endian integer - written here with schoolbook byte arithmetic, independent of ruint
    let mut n = [0u8; 32];
    for &l in path {
        let mut carry: u32 = (l as u32) + 1;
        for b in n.iter_mut().rev() {
            let v = ((*b as u32) << 6) + carry;
            *b = (v & 0xff) as u8;
            carry = v >> 8;
        }
        assert!(carry == 0, "spec encoding overflows 256 bits");
    }
    n
}

#[cfg(test)]
fn native_check(path: &[u8]) -> [u8; 32] {
    let id = native_mk(path);
    let enc = id.encode();
    assert!(enc == native_spec_encode(path), "encode differs from the documented format: path={:?} enc={:?}", path, enc);
    let d = PageId::decode(enc).unwrap_or_else(|_| panic!("encoding of a valid id rejected: path={:?}", path));
    assert!(d == id, "path={:?} enc={:?} decoded={:?}", path, enc, d);
    enc
}

/// Bounded native enumeration (not a proof): every id of depth 0..=3 (266 305 ids), and for every
/// depth 4..=42 three base patterns with every child index at every level - encode equals the
/// documented format, decode inverts it, and ids differing in one level get different labels.
#[cfg(test)]
#[test]
fn native_enum_page_id_codec() {
    let mut n = 0u64;
    native_check(&[]);
    for a in 0..=MAX_CHILD_INDEX {
        native_check(&[a]);
        for b in 0..=MAX_CHILD_INDEX {
            native_check(&[a, b]);
            for c in 0..=MAX_CHILD_INDEX {
                native_check(&[a, b, c]);
                n += 1;
            }
        }
    }
    for depth in 4..=42usize {
        for base in [0u8, 63, 21] {
            let mut path = vec![base; depth];
            if base == 21 {
                for (i, l) in path.iter_mut().enumerate() {
                    *l = ((i * 37 + 11) % 64) as u8;
                }
            }
            let base_enc = native_check(&path);
            for pos in 0..depth {
                let keep = path[pos];
                for v in 0..=MAX_CHILD_INDEX {
                    path[pos] = v;
                    let enc = native_check(&path);
                    assert!((enc == base_enc) == (v == keep), "two page ids share a label: depth={} pos={} v={} keep={}", depth, pos, v, keep);
                    n += 1;
                }
                path[pos] = keep;
            }
        }
    }
    assert!(n > 400_000);
    // labels above the highest depth-42 id are rejected, not wrapped
    assert!(PageId::decode([0xff; 32]).is_err());
}

//! Kani harnesses at the root of nomt-core.
#![allow(unused_imports, dead_code)]
use super::*;

#[cfg(test)]
include!("/verif/.build/playback/core_lib.inc");

//! K2 (meta): Kani harnesses for nomt/src/store/meta.rs, compiled into the real crate under cfg(kani).
#![allow(unused_imports, dead_code)]
use super::*;

fn any_meta() -> Meta {
    Meta {
        magic: kani::any(),
        version: kani::any(),
        ln_freelist_pn: kani::any(),
        ln_bump: kani::any(),
        bbn_freelist_pn: kani::any(),
        bbn_bump: kani::any(),
        sync_seqn: kani::any(),
        bitbox_num_pages: kani::any(),
        bitbox_seed: kani::any(),
        rollback_start_live: kani::any(),
        rollback_end_live: kani::any(),
    }
}

/// decode(encode(m)) == m for every Meta, and encode_to writes bytes 0..64 only.
/// Loop-free over full-domain symbolic input: a complete proof.
#[kani::proof]
fn meta_roundtrip() {
    let m = any_meta();
    let orig: [u8; 96] = kani::any();
    let mut buf = orig;
    m.encode_to(&mut buf);
    let d = Meta::decode(&buf);
    assert!(d.magic == m.magic);
    assert!(d.version == m.version);
    assert!(d.ln_freelist_pn == m.ln_freelist_pn);
    assert!(d.ln_bump == m.ln_bump);
    assert!(d.bbn_freelist_pn == m.bbn_freelist_pn);
    assert!(d.bbn_bump == m.bbn_bump);
    assert!(d.sync_seqn == m.sync_seqn);
    assert!(d.bitbox_num_pages == m.bitbox_num_pages);
    assert!(d.bitbox_seed == m.bitbox_seed);
    assert!(d.rollback_start_live == m.rollback_start_live);
    assert!(d.rollback_end_live == m.rollback_end_live);
    // frame: nothing beyond META_SIZE is touched
    let i: usize = kani::any();
    kani::assume(i >= META_SIZE && i < 96);
    assert!(buf[i] == orig[i]);
    kani::cover!(true, "reachable");
}

/// encode(decode(b)) reproduces the first 64 bytes: the format has no slack (every byte of the
/// meta record is significant), so two different records never decode to the same Meta.
#[kani::proof]
fn meta_decode_injective() {
    let b: [u8; 64] = kani::any();
    let m = Meta::decode(&b);
    let mut out = [0u8; 64];
    m.encode_to(&mut out);
    let i: usize = kani::any();
    kani::assume(i < 64);
    assert!(out[i] == b[i]);
    kani::cover!(true, "reachable");
}

#[cfg(test)]
include!("/verif/.build/playback/store_meta.inc");

//! K2 (meta): Kani harnesses for nomt/src/store/meta.rs, compiled into the real crate under cfg(kani).
#![allow(unused_imports, dead_code)]
use super::*;

fn any_meta() -> Meta {
    Meta {
        magic: kani::any(),
        version: kani::any(),
        ln_freelist_pn: kani::any(),
        ln_bump: kani::any(),
        bbn_freelist_pn: kani::any(),
        bbn_bump: kani::any(),
        sync_seqn: kani::any(),
        bitbox_num_pages: kani::any(),
        bitbox_seed: kani::any(),
        rollback_start_live: kani::any(),
        rollback_end_live: kani::any(),
    }
}

/// decode(encode(m)) == m for every Meta, and encode_to writes bytes 0..64 only.
/// Loop-free over full-domain symbolic input: a complete proof.
#[kani::proof]
fn meta_roundtrip() {
    let m = any_meta();
    let orig: [u8; 96] = kani::any();
    let mut buf = orig;
    m.encode_to(&mut buf);
    let d = Meta::decode(&buf);
    assert!(d.magic == m.magic);
    assert!(d.version == m.version);
    assert!(d.ln_freelist_pn == m.ln_freelist_pn);
    assert!(d.ln_bump == m.ln_bump);
    assert!(d.bbn_freelist_pn == m.bbn_freelist_pn);
    assert!(d.bbn_bump == m.bbn_bump);
    assert!(d.sync_seqn == m.sync_seqn);
    assert!(d.bitbox_num_pages == m.bitbox_num_pages);
    assert!(d.bitbox_seed == m.bitbox_seed);
    assert!(d.rollback_start_live == m.rollback_start_live);
    assert!(d.rollback_end_live == m.rollback_end_live);
    // frame: nothing beyond META_SIZE is touched
    let i: usize = kani::any();
    kani::assume(i >= META_SIZE && i < 96);
    assert!(buf[i] == orig[i]);
    kani::cover!(true, "reachable");
}

/// encode(decode(b)) reproduces the first 64 bytes: the format has no slack (every byte of the
/// meta record is significant), so two different records never decode to the same Meta.
#[kani::proof]
fn meta_decode_injective() {
    let b: [u8; 64] = kani::any();
    let m = Meta::decode(&b);
    let mut out = [0u8; 64];
    m.encode_to(&mut out);
    let i: usize = kani::any();
    kani::assume(i < 64);
    assert!(out[i] == b[i]);
    kani::cover!(true, "reachable");
}

/// Meta::write: one 4096-byte write at offset 0 carrying encode_to(meta), then fsync, then Ok.
/// Any failing operation ==> Err and nothing issued after it.
#[kani::proof]
#[kani::unwind(3)]
#[kani::stub(std::fs::File::sync_all, crate::io::verif_kani::stub_sync_all)]
#[kani::stub(<std::fs::File as std::os::unix::fs::FileExt>::write_at, stub_write_at_meta)]
#[kani::stub(crate::io::page_pool::PagePool::alloc, crate::io::page_pool::verif_kani::stub_alloc)]
#[kani::stub(crate::io::page_pool::PagePool::dealloc, crate::io::page_pool::verif_kani::stub_dealloc)]
fn meta_write_effects() {
    use crate::io::verif_kani as gh;
    let f = gh::kani_file(5);
    let pool = crate::io::page_pool::verif_kani::kani_page_pool();
    let m = any_meta();
    unsafe {
        EXPECT = Some(m.clone());
    }
    let r = Meta::write(&pool, &f, &m);
    let k = gh::log_len();
    if r.is_ok() {
        assert!(k == 2);
        assert!(gh::log_at(0) == gh::OP_WRITE_AT);
        // offset 0, length 4096
        assert!(gh::log_arg(0) == 4096);
        assert!(gh::log_at(1) == gh::OP_FSYNC);
        assert!(unsafe { PAYLOAD_OK });
    } else {
        assert!(gh::failed_at() == k - 1);
    }
    assert!((gh::failed_at() != usize::MAX) == r.is_err());
    kani::cover!(r.is_ok(), "success reachable");
    kani::cover!(r.is_err() && k == 2, "fsync failure reachable");
    std::mem::forget(pool);
}

static mut EXPECT: Option<Meta> = None;
static mut PAYLOAD_OK: bool = false;

fn stub_write_at_meta(_f: &File, buf: &[u8], offset: u64) -> std::io::Result<usize> {
    use crate::io::verif_kani as gh;
    // the page written is the encoding of the meta that was passed in
    if buf.len() >= META_SIZE {
        let d = Meta::decode(&buf[..META_SIZE]);
        let e = unsafe { EXPECT.as_ref().unwrap() };
        unsafe {
            PAYLOAD_OK = d.sync_seqn == e.sync_seqn
                && d.magic == e.magic
                && d.version == e.version
                && d.ln_freelist_pn == e.ln_freelist_pn
                && d.ln_bump == e.ln_bump
                && d.bbn_freelist_pn == e.bbn_freelist_pn
                && d.bbn_bump == e.bbn_bump
                && d.bitbox_num_pages == e.bitbox_num_pages
                && d.bitbox_seed == e.bitbox_seed
                && d.rollback_start_live == e.rollback_start_live
                && d.rollback_end_live == e.rollback_end_live;
        }
    }
    gh::fallible(gh::OP_WRITE_AT, (offset << 32) | buf.len() as u64).map(|_| buf.len())
}

#[cfg(test)]
include!("/verif/.build/playback/store_meta.inc");

//! Kani harnesses for nomt/src/beatree/index.rs (compiled into the real crate only under cfg(kani)).
#![allow(unused_imports, dead_code)]
use super::*;

#[cfg(test)]
include!("/verif/.build/playback/beatree_index.inc");

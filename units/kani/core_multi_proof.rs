//! K7 (multi-proof): totality of the multi-proof verifier over symbolic proof objects (C18).
#![allow(unused_imports, dead_code)]
use super::*;
use crate::hasher::{BinaryHash, BinaryHasher};
use crate::trie_pos::verif_kani::{any_trie_pos, trie_pos_with_depth};

/// A cheap hash for totality harnesses: the verdict of a totality harness does not depend on hash
/// values (every branch on a hash comparison is explored both ways by the symbolic root).
pub(crate) struct ToyHash;
impl BinaryHash for ToyHash {
    fn hash(input: &[u8]) -> [u8; 32] {
        let mut out = [0u8; 32];
        out[0] = input[0];
        out[1] = input[input.len() - 1];
        out[31] = 1;
        out
    }
}
pub(crate) type H = BinaryHasher<ToyHash>;

pub(crate) fn any_terminal() -> PathProofTerminal {
    if kani::any() {
        PathProofTerminal::Leaf(LeafData { key_path: kani::any(), value_hash: kani::any() })
    } else {
        PathProofTerminal::Terminator(any_trie_pos())
    }
}

pub(crate) fn any_multi_path() -> MultiPathProof {
    MultiPathProof { terminal: any_terminal(), depth: kani::any() }
}

pub(crate) fn any_siblings(max: usize) -> Vec<Node> {
    let n: usize = kani::any();
    kani::assume(n <= max);
    let mut v = Vec::with_capacity(max);
    let mut i = 0;
    while i < max {
        if i < n {
            v.push(kani::any());
        }
        i += 1;
    }
    v
}

/// verify(multi_proof, root) returns Ok or Err for every multi-proof with one path (any terminal,
/// any depth: usize) and up to 2 siblings, and any root.  Bounded in the lengths only.
#[kani::proof]
#[kani::unwind(4)]
fn multi_verify_total_1path() {
    let mp = MultiProof { paths: vec![any_multi_path()], siblings: any_siblings(2) };
    let root: Node = kani::any();
    let r = verify::<H>(&mp, root);
    kani::cover!(r.is_ok(), "accepting run reachable");
    kani::cover!(r.is_err(), "rejecting run reachable");
}

/// Two terminator paths of concrete position depths (d1, d2) with symbolic path bits, symbolic
/// claimed depths (any usize), a concrete number `ns` of symbolic siblings, any root.  The
/// harnesses enumerate small (d1, d2, ns): this covers prefix-related paths, equal paths, claimed
/// depths shorter/longer than the terminal and too few siblings.  Bounded in these three numbers.
fn two_terminators(d1: u16, d2: u16, ns: usize) {
    let a = MultiPathProof { terminal: PathProofTerminal::Terminator(trie_pos_with_depth(d1)), depth: kani::any() };
    let b = MultiPathProof { terminal: PathProofTerminal::Terminator(trie_pos_with_depth(d2)), depth: kani::any() };
    let mut siblings: Vec<Node> = Vec::with_capacity(ns);
    let mut i = 0;
    while i < ns {
        siblings.push(kani::any());
        i += 1;
    }
    let mp = MultiProof { paths: vec![a, b], siblings };
    let root: Node = kani::any();
    let r = verify::<H>(&mp, root);
    kani::cover!(r.is_err(), "rejecting run reachable");
}

macro_rules! two_term_harness {
    ($name:ident, $a:expr, $b:expr, $n:expr) => {
        #[kani::proof]
        #[kani::unwind(6)]
        fn $name() {
            two_terminators($a, $b, $n);
        }
    };
}
two_term_harness!(multi_verify_total_2term_1_2_s1, 1, 2, 1);
two_term_harness!(multi_verify_total_2term_1_1_s0, 1, 1, 0);
two_term_harness!(multi_verify_total_2term_2_2_s1, 2, 2, 1);
two_term_harness!(multi_verify_total_2term_2_3_s2, 2, 3, 2);
two_term_harness!(multi_verify_total_2term_0_1_s0, 0, 1, 0);

#[cfg(test)]
include!("/verif/.build/playback/core_multi_proof.inc");

//! K7 (multi-proof): totality of the multi-proof verifier over symbolic proof objects (C18).
#![allow(unused_imports, dead_code)]
use super::*;
use crate::hasher::{BinaryHash, BinaryHasher};
use crate::trie_pos::verif_kani::{any_trie_pos, trie_pos_with_depth};

/// A cheap hash for totality harnesses: the verdict of a totality harness does not depend on hash
/// values (every branch on a hash comparison is explored both ways by the symbolic root).
pub(crate) struct ToyHash;
impl BinaryHash for ToyHash {
    fn hash(input: &[u8]) -> [u8; 32] {
        let mut out = [0u8; 32];
        out[0] = input[0];
        out[1] = input[input.len() - 1];
        out[31] = 1;
        out
    }
}
pub(crate) type H = BinaryHasher<ToyHash>;

pub(crate) fn any_terminal() -> PathProofTerminal {
    if kani::any() {
        PathProofTerminal::Leaf(LeafData { key_path: kani::any(), value_hash: kani::any() })
    } else {
        PathProofTerminal::Terminator(any_trie_pos())
    }
}

pub(crate) fn any_multi_path() -> MultiPathProof {
    MultiPathProof { terminal: any_terminal(), depth: kani::any() }
}

pub(crate) fn any_siblings(max: usize) -> Vec<Node> {
    let n: usize = kani::any();
    kani::assume(n <= max);
    let mut v = Vec::with_capacity(max);
    let mut i = 0;
    while i < max {
        if i < n {
            v.push(kani::any());
        }
        i += 1;
    }
    v
}

/// verify(multi_proof, root) returns Ok or Err for every multi-proof with one path (any terminal,
/// any depth: usize) and up to 2 siblings, and any root.  Bounded in the lengths only.
#[kani::proof]
#[kani::unwind(4)]
fn multi_verify_total_1path() {
    let mp = MultiProof { paths: vec![any_multi_path()], siblings: any_siblings(2) };
    let root: Node = kani::any();
    let r = verify::<H>(&mp, root);
    kani::cover!(r.is_ok(), "accepting run reachable");
    kani::cover!(r.is_err(), "rejecting run reachable");
}

// Two-path (and longer) multi-proofs are NOT under a symbolic harness: even a fully concrete
// two-terminator proof did not finish symbolic execution in 5 minutes under CBMC (the bisection
// branch: BitSlice ordering, binary_search_by with a closure, recursion), and symbolic variants
// exhausted 14 GB.  The stand-in below is a BOUNDED NATIVE ENUMERATION of the real function, run
// with `cargo kani playback` (ordinary debug build of the real crate).  It is labelled bounded and
// never counted as proved.

#[cfg(test)]
fn pos_from_bits(bits: &[bool]) -> crate::trie_pos::TriePosition {
    let mut p = crate::trie_pos::TriePosition::new();
    for b in bits {
        p.down(*b);
    }
    p
}

/// Every multi-proof with 2 or 3 paths whose terminals are terminators at every position of depth
/// 0..=3 or leaves with one of 4 key patterns, every claimed depth in {0..=4, 255, 256, 257,
/// usize::MAX}, 0..=3 siblings (fixed values), fixed root: `verify` must return, never panic.
/// (~2.6 million calls for pairs, a sampled sweep for triples.)
#[cfg(test)]
#[test]
fn native_enum_multi_verify_small_proofs_total() {
    let mut terminals: Vec<PathProofTerminal> = Vec::new();
    for depth in 0..=3usize {
        for v in 0..(1usize << depth) {
            let bits: Vec<bool> = (0..depth).map(|i| (v >> (depth - 1 - i)) & 1 == 1).collect();
            terminals.push(PathProofTerminal::Terminator(pos_from_bits(&bits)));
        }
    }
    for first in [0x00u8, 0x40, 0x80, 0xff] {
        let mut k = [0u8; 32];
        k[0] = first;
        terminals.push(PathProofTerminal::Leaf(LeafData { key_path: k, value_hash: [7u8; 32] }));
    }
    let depths: [usize; 9] = [0, 1, 2, 3, 4, 255, 256, 257, usize::MAX];
    let root = [3u8; 32];
    let mut calls = 0u64;
    let prev_hook = std::panic::take_hook();
    std::panic::set_hook(Box::new(|_| {}));
    let mut failure: Option<String> = None;
    'outer: for ta in &terminals {
        for tb in &terminals {
            for da in depths {
                for db in depths {
                    for ns in 0..=3usize {
                        let mp = MultiProof {
                            paths: vec![
                                MultiPathProof { terminal: ta.clone(), depth: da },
                                MultiPathProof { terminal: tb.clone(), depth: db },
                            ],
                            siblings: vec![[9u8; 32]; ns],
                        };
                        calls += 1;
                        let r = std::panic::catch_unwind(|| {
                            let _ = verify::<crate::hasher::Blake3Hasher>(&mp, root);
                        });
                        if r.is_err() {
                            failure = Some(format!("verify panicked on {:?}", mp));
                            break 'outer;
                        }
                    }
                }
            }
        }
    }
    // triples: honest depths plus each single depth perturbed
    if failure.is_none() {
        'outer3: for ta in &terminals {
            for tb in &terminals {
                for tc in &terminals {
                    for (da, db, dc) in [(1usize, 2usize, 2usize), (2, 2, 1), (0, 3, 3), (3, 1, 2), (256, 2, 256)] {
                        for ns in 0..=3usize {
                            let mp = MultiProof {
                                paths: vec![
                                    MultiPathProof { terminal: ta.clone(), depth: da },
                                    MultiPathProof { terminal: tb.clone(), depth: db },
                                    MultiPathProof { terminal: tc.clone(), depth: dc },
                                ],
                                siblings: vec![[9u8; 32]; ns],
                            };
                            calls += 1;
                            let r = std::panic::catch_unwind(|| {
                                let _ = verify::<crate::hasher::Blake3Hasher>(&mp, root);
                            });
                            if r.is_err() {
                                failure = Some(format!("verify panicked on {:?}", mp));
                                break 'outer3;
                            }
                        }
                    }
                }
            }
        }
    }
    std::panic::set_hook(prev_hook);
    println!("native_enum_multi_verify_small_proofs_total: {} calls", calls);
    assert!(failure.is_none(), "{}", failure.unwrap());
}

/// C08 (ordering and scope contract, bounded native enumeration): a multi-proof that `verify`
/// ACCEPTS has strictly ascending terminal paths - the fact `find_index_for`'s binary search and the
/// update verifier rely on - and pairwise disjoint scopes: no terminal's claimed scope
/// (path[..depth]) is a prefix of another's, so a terminal can never speak for keys that belong to
/// a sibling sub-trie.  For every pair/triple of small terminals (terminators of depth 0..=3 with
/// honest depths, 4 leaf patterns at depths 1..=3) and 0..=3 siblings, the root is computed with
/// the real `verify_range`, so the root comparison passes and only the structural checks decide.
#[cfg(test)]
#[test]
fn native_enum_multi_verify_accepts_only_sorted() {
    type B3 = crate::hasher::Blake3Hasher;
    // every small terminal with EVERY claimed depth 0..=3 (honest or not)
    let mut items: Vec<MultiPathProof> = Vec::new();
    for depth in 0..=3usize {
        for v in 0..(1usize << depth) {
            let bits: Vec<bool> = (0..depth).map(|i| (v >> (depth - 1 - i)) & 1 == 1).collect();
            for claimed in 0..=3usize {
                items.push(MultiPathProof { terminal: PathProofTerminal::Terminator(pos_from_bits(&bits)), depth: claimed });
            }
        }
    }
    for first in [0x00u8, 0x40, 0x80, 0xff] {
        for depth in 0..=3usize {
            let mut k = [0u8; 32];
            k[0] = first;
            items.push(MultiPathProof {
                terminal: PathProofTerminal::Leaf(LeafData { key_path: k, value_hash: [7u8; 32] }),
                depth,
            });
        }
    }
    let prev_hook = std::panic::take_hook();
    std::panic::set_hook(Box::new(|_| {}));
    let mut calls = 0u64;
    let mut accepted = 0u64;
    let mut failure: Option<String> = None;
    let mut check = |paths: Vec<MultiPathProof>, ns: usize, calls: &mut u64, accepted: &mut u64| -> Option<String> {
        let siblings = vec![[9u8; 32]; ns];
        *calls += 1;
        let computed = std::panic::catch_unwind(|| {
            let mut vp = Vec::new();
            let mut vb = Vec::new();
            verify_range::<B3>(0, &paths, &siblings, 0, &mut vp, &mut vb)
        });
        let root = match computed {
            Ok(Ok((root, used))) if used == siblings.len() => root,
            _ => return None,
        };
        let mp = MultiProof { paths, siblings };
        match std::panic::catch_unwind(|| verify::<B3>(&mp, root).is_ok()) {
            Ok(true) => {
                *accepted += 1;
                for w in mp.paths.windows(2) {
                    if !(w[0].terminal.path() < w[1].terminal.path()) {
                        return Some(format!("verify accepted a multi-proof whose paths are not strictly ascending: {:?}", mp.paths));
                    }
                }
                // scopes: terminal i speaks for the keys starting with path_i[..depth_i]; an accepted
                // proof must give every key to at most one terminal (no scope is a prefix of another)
                for i in 0..mp.paths.len() {
                    let pi = mp.paths[i].terminal.path();
                    if mp.paths[i].depth > pi.len() {
                        return Some(format!("verify accepted a terminal whose claimed depth exceeds its path: {:?}", mp.paths));
                    }
                    for j in 0..mp.paths.len() {
                        if i == j { continue; }
                        let pj = mp.paths[j].terminal.path();
                        let si = &pi[..mp.paths[i].depth];
                        let sj = &pj[..mp.paths[j].depth.min(pj.len())];
                        if sj.len() >= si.len() && sj[..si.len()] == *si {
                            return Some(format!("verify accepted overlapping scopes: terminal {} (depth {}) covers terminal {}: {:?}", i, mp.paths[i].depth, j, mp.paths));
                        }
                    }
                }
                None
            }
            _ => None,
        }
    };
    'outer: for a in &items {
        for b in &items {
            for ns in 0..=3usize {
                if let Some(f) = check(vec![a.clone(), b.clone()], ns, &mut calls, &mut accepted) {
                    failure = Some(f);
                    break 'outer;
                }
            }
            for c in &items {
                for ns in 0..=3usize {
                    if let Some(f) = check(vec![a.clone(), b.clone(), c.clone()], ns, &mut calls, &mut accepted) {
                        failure = Some(f);
                        break 'outer;
                    }
                }
            }
        }
    }
    std::panic::set_hook(prev_hook);
    println!("native_enum_multi_verify_accepts_only_sorted: {} calls, {} accepted", calls, accepted);
    assert!(accepted > 0, "vacuous: no enumerated proof was accepted");
    assert!(failure.is_none(), "{}", failure.unwrap());
}

/// C18 / C08 (bounded native enumeration): `verify_update` on every ACCEPTED small multi-proof
/// (pairs of small terminals, see above) with every op list of length 1..=3 over 8 key patterns
/// (ascending, descending and duplicate keys, inserts and deletes): it must return, never panic,
/// and must reject every op list that is not strictly ascending.
#[cfg(test)]
#[test]
fn native_enum_multi_verify_update_total() {
    type B3 = crate::hasher::Blake3Hasher;
    let mut items: Vec<MultiPathProof> = Vec::new();
    for depth in 0..=3usize {
        for v in 0..(1usize << depth) {
            let bits: Vec<bool> = (0..depth).map(|i| (v >> (depth - 1 - i)) & 1 == 1).collect();
            items.push(MultiPathProof { terminal: PathProofTerminal::Terminator(pos_from_bits(&bits)), depth });
        }
    }
    for first in [0x00u8, 0x40, 0x80, 0xff] {
        for depth in 1..=3usize {
            let mut k = [0u8; 32];
            k[0] = first;
            items.push(MultiPathProof {
                terminal: PathProofTerminal::Leaf(LeafData { key_path: k, value_hash: [7u8; 32] }),
                depth,
            });
        }
    }
    let key_of = |b: u8| { let mut k = [0u8; 32]; k[0] = b; k[31] = 1; k };
    let pats = [0x00u8, 0x20, 0x40, 0x60, 0x80, 0xa0, 0xc0, 0xe0];
    let mut op_lists: Vec<Vec<(KeyPath, Option<ValueHash>)>> = Vec::new();
    for &a in &pats {
        op_lists.push(vec![(key_of(a), Some([1u8; 32]))]);
        op_lists.push(vec![(key_of(a), None)]);
        for &b in &pats {
            op_lists.push(vec![(key_of(a), Some([1u8; 32])), (key_of(b), None)]);
            op_lists.push(vec![(key_of(a), Some([1u8; 32])), (key_of(b), Some([2u8; 32]))]);
            for &c in &[0x00u8, 0x40, 0x80, 0xe0] {
                op_lists.push(vec![(key_of(a), Some([1u8; 32])), (key_of(b), Some([2u8; 32])), (key_of(c), None)]);
            }
        }
    }
    let prev_hook = std::panic::take_hook();
    std::panic::set_hook(Box::new(|_| {}));
    let mut verified: Vec<VerifiedMultiProof> = Vec::new();
    let mut singles_and_pairs: Vec<Vec<MultiPathProof>> = items.iter().map(|a| vec![a.clone()]).collect();
    for a in &items {
        for b in &items {
            singles_and_pairs.push(vec![a.clone(), b.clone()]);
        }
    }
    for paths in singles_and_pairs {
        for ns in 0..=3usize {
            let siblings = vec![[9u8; 32]; ns];
            let computed = std::panic::catch_unwind(|| {
                let mut vp = Vec::new();
                let mut vb = Vec::new();
                verify_range::<B3>(0, &paths, &siblings, 0, &mut vp, &mut vb)
            });
            if let Ok(Ok((root, used))) = computed {
                if used == siblings.len() {
                    let mp = MultiProof { paths: paths.clone(), siblings };
                    if let Ok(Ok(v)) = std::panic::catch_unwind(|| verify::<B3>(&mp, root)) {
                        verified.push(v);
                    }
                }
            }
        }
    }
    let mut calls = 0u64;
    let mut failure: Option<String> = None;
    'outer: for v in &verified {
        for ops in &op_lists {
            calls += 1;
            let sorted = ops.windows(2).all(|w| w[0].0 < w[1].0);
            let r = std::panic::catch_unwind(|| verify_update::<B3>(v, ops.clone()));
            match r {
                Err(_) => {
                    failure = Some(format!("verify_update panicked on proof {:?} with ops keys {:?}", v, ops.iter().map(|o| o.0[0]).collect::<Vec<_>>()));
                    break 'outer;
                }
                Ok(Ok(_)) if !sorted => {
                    failure = Some(format!("verify_update accepted ops that are not strictly ascending: {:?} on proof {:?}", ops.iter().map(|o| o.0[0]).collect::<Vec<_>>(), v));
                    break 'outer;
                }
                _ => {}
            }
        }
    }
    std::panic::set_hook(prev_hook);
    println!("native_enum_multi_verify_update_total: {} calls on {} verified proofs", calls, verified.len());
    assert!(verified.len() > 10, "vacuous: too few verified proofs");
    assert!(failure.is_none(), "{}", failure.unwrap());
}

#[cfg(test)]
include!("/verif/.build/playback/core_multi_proof.inc");

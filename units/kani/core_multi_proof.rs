//! K7 (multi-proof): totality of the multi-proof verifier over symbolic proof objects (C18).
#![allow(unused_imports, dead_code)]
use super::*;
use crate::hasher::{BinaryHash, BinaryHasher};
use crate::trie_pos::verif_kani::{any_trie_pos, trie_pos_with_depth};

/// A cheap hash for totality harnesses: the verdict of a totality harness does not depend on hash
/// values (every branch on a hash comparison is explored both ways by the symbolic root).
pub(crate) struct ToyHash;
impl BinaryHash for ToyHash {
    fn hash(input: &[u8]) -> [u8; 32] {
        let mut out = [0u8; 32];
        out[0] = input[0];
        out[1] = input[input.len() - 1];
        out[31] = 1;
        out
    }
}
pub(crate) type H = BinaryHasher<ToyHash>;

pub(crate) fn any_terminal() -> PathProofTerminal {
    if kani::any() {
        PathProofTerminal::Leaf(LeafData { key_path: kani::any(), value_hash: kani::any() })
    } else {
        PathProofTerminal::Terminator(any_trie_pos())
    }
}

pub(crate) fn any_multi_path() -> MultiPathProof {
    MultiPathProof { terminal: any_terminal(), depth: kani::any() }
}

pub(crate) fn any_siblings(max: usize) -> Vec<Node> {
    let n: usize = kani::any();
    kani::assume(n <= max);
    let mut v = Vec::with_capacity(max);
    let mut i = 0;
    while i < max {
        if i < n {
            v.push(kani::any());
        }
        i += 1;
    }
    v
}

/// verify(multi_proof, root) returns Ok or Err for every multi-proof with one path (any terminal,
/// any depth: usize) and up to 2 siblings, and any root.  Bounded in the lengths only.
#[kani::proof]
#[kani::unwind(4)]
fn multi_verify_total_1path() {
    let mp = MultiProof { paths: vec![any_multi_path()], siblings: any_siblings(2) };
    let root: Node = kani::any();
    let r = verify::<H>(&mp, root);
    kani::cover!(r.is_ok(), "accepting run reachable");
    kani::cover!(r.is_err(), "rejecting run reachable");
}

/// Two paths whose terminal paths diverge within their first 3 bits (bound on the common prefix,
/// which is what bounds the loops), any depths, up to 3 siblings, any root.
fn two_paths_diverging_early() -> (MultiPathProof, MultiPathProof) {
    let a = any_multi_path();
    let b = any_multi_path();
    let pa = a.terminal.path();
    let pb = b.terminal.path();
    let n = if pa.len() < pb.len() { pa.len() } else { pb.len() };
    // the first difference, if any, is among the first 3 bits; otherwise one path has < 3 bits
    let mut i = 0;
    let mut differ = false;
    while i < 3 {
        if i < n && pa[i] != pb[i] {
            differ = true;
        }
        i += 1;
    }
    kani::assume(differ || n < 3);
    (a, b)
}

#[kani::proof]
#[kani::unwind(6)]
fn multi_verify_total_2paths() {
    let (a, b) = two_paths_diverging_early();
    let mp = MultiProof { paths: vec![a, b], siblings: any_siblings(3) };
    let root: Node = kani::any();
    let r = verify::<H>(&mp, root);
    kani::cover!(r.is_ok(), "accepting run reachable");
    kani::cover!(r.is_err(), "rejecting run reachable");
}

#[cfg(test)]
include!("/verif/.build/playback/core_multi_proof.inc");

//! K7 (multi-proof): totality of the multi-proof verifier over symbolic proof objects (C18).
#![allow(unused_imports, dead_code)]
use super::*;
use crate::hasher::{BinaryHash, BinaryHasher};
use crate::trie_pos::verif_kani::{any_trie_pos, trie_pos_with_depth};

/// A cheap hash for totality harnesses: the verdict of a totality harness does not depend on hash
/// values (every branch on a hash comparison is explored both ways by the symbolic root).
pub(crate) struct ToyHash;
impl BinaryHash for ToyHash {
    fn hash(input: &[u8]) -> [u8; 32] {
        let mut out = [0u8; 32];
        out[0] = input[0];
        out[1] = input[input.len() - 1];
        out[31] = 1;
        out
    }
}
pub(crate) type H = BinaryHasher<ToyHash>;

pub(crate) fn any_terminal() -> PathProofTerminal {
    if kani::any() {
        PathProofTerminal::Leaf(LeafData { key_path: kani::any(), value_hash: kani::any() })
    } else {
        PathProofTerminal::Terminator(any_trie_pos())
    }
}

pub(crate) fn any_multi_path() -> MultiPathProof {
    MultiPathProof { terminal: any_terminal(), depth: kani::any() }
}

pub(crate) fn any_siblings(max: usize) -> Vec<Node> {
    let n: usize = kani::any();
    kani::assume(n <= max);
    let mut v = Vec::with_capacity(max);
    let mut i = 0;
    while i < max {
        if i < n {
            v.push(kani::any());
        }
        i += 1;
    }
    v
}

/// verify(multi_proof, root) returns Ok or Err for every multi-proof with one path (any terminal,
/// any depth: usize) and up to 2 siblings, and any root.  Bounded in the lengths only.
#[kani::proof]
#[kani::unwind(4)]
fn multi_verify_total_1path() {
    let mp = MultiProof { paths: vec![any_multi_path()], siblings: any_siblings(2) };
    let root: Node = kani::any();
    let r = verify::<H>(&mp, root);
    kani::cover!(r.is_ok(), "accepting run reachable");
    kani::cover!(r.is_err(), "rejecting run reachable");
}

/// Two terminator paths with CONCRETE path bits (given as bit strings), symbolic claimed depths
/// (any usize), `ns` symbolic siblings, any root.  Bit-slice bounds stay concrete this way, which
/// is what CBMC needs (symbolic path bits in the two-path branch exhausted 14 GB).  The harnesses
/// enumerate prefix-related, equal, diverging and unordered pairs: bounded to these shapes.
fn pos_from_bits(bits: &[u8]) -> crate::trie_pos::TriePosition {
    let mut p = crate::trie_pos::TriePosition::new();
    let mut i = 0;
    while i < bits.len() {
        p.down(bits[i] == 1);
        i += 1;
    }
    p
}

fn two_concrete_terminators(pa: &[u8], pb: &[u8], ns: usize) {
    let a = MultiPathProof { terminal: PathProofTerminal::Terminator(pos_from_bits(pa)), depth: kani::any() };
    let b = MultiPathProof { terminal: PathProofTerminal::Terminator(pos_from_bits(pb)), depth: kani::any() };
    let mut siblings: Vec<Node> = Vec::with_capacity(ns);
    let mut i = 0;
    while i < ns {
        siblings.push(kani::any());
        i += 1;
    }
    let mp = MultiProof { paths: vec![a, b], siblings };
    let root: Node = kani::any();
    let r = verify::<H>(&mp, root);
    kani::cover!(r.is_err(), "rejecting run reachable");
}

macro_rules! two_term_harness {
    ($name:ident, $a:expr, $b:expr, $n:expr) => {
        #[kani::proof]
        #[kani::unwind(6)]
        fn $name() {
            two_concrete_terminators(&$a, &$b, $n);
        }
    };
}
two_term_harness!(multi_verify_2term_prefix_0_01, [0u8], [0u8, 1], 1);
two_term_harness!(multi_verify_2term_prefix_0_00, [0u8], [0u8, 0], 1);
two_term_harness!(multi_verify_2term_diverge_0_1, [0u8], [1u8], 0);
two_term_harness!(multi_verify_2term_diverge_00_01, [0u8, 0], [0u8, 1], 1);
two_term_harness!(multi_verify_2term_root_and_1, [0u8; 0], [1u8], 0);
two_term_harness!(multi_verify_2term_equal_01_01, [0u8, 1], [0u8, 1], 1);
two_term_harness!(multi_verify_2term_deep_010_011, [0u8, 1, 0], [0u8, 1, 1], 2);

#[cfg(test)]
include!("/verif/.build/playback/core_multi_proof.inc");

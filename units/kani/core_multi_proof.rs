//! K7 (multi-proof): totality of the multi-proof verifier over symbolic proof objects (C18).
#![allow(unused_imports, dead_code)]
use super::*;
use crate::hasher::{BinaryHash, BinaryHasher};
use crate::trie_pos::verif_kani::{any_trie_pos, trie_pos_with_depth};

/// A cheap hash for totality harnesses: the verdict of a totality harness does not depend on hash
/// values (every branch on a hash comparison is explored both ways by the symbolic root).
pub(crate) struct ToyHash;
impl BinaryHash for ToyHash {
    fn hash(input: &[u8]) -> [u8; 32] {
        let mut out = [0u8; 32];
        out[0] = input[0];
        out[1] = input[input.len() - 1];
        out[31] = 1;
        out
    }
}
pub(crate) type H = BinaryHasher<ToyHash>;

pub(crate) fn any_terminal() -> PathProofTerminal {
    if kani::any() {
        PathProofTerminal::Leaf(LeafData { key_path: kani::any(), value_hash: kani::any() })
    } else {
        PathProofTerminal::Terminator(any_trie_pos())
    }
}

pub(crate) fn any_multi_path() -> MultiPathProof {
    MultiPathProof { terminal: any_terminal(), depth: kani::any() }
}

pub(crate) fn any_siblings(max: usize) -> Vec<Node> {
    let n: usize = kani::any();
    kani::assume(n <= max);
    let mut v = Vec::with_capacity(max);
    let mut i = 0;
    while i < max {
        if i < n {
            v.push(kani::any());
        }
        i += 1;
    }
    v
}

/// verify(multi_proof, root) returns Ok or Err for every multi-proof with one path (any terminal,
/// any depth: usize) and up to 2 siblings, and any root.  Bounded in the lengths only.
#[kani::proof]
#[kani::unwind(4)]
fn multi_verify_total_1path() {
    let mp = MultiProof { paths: vec![any_multi_path()], siblings: any_siblings(2) };
    let root: Node = kani::any();
    let r = verify::<H>(&mp, root);
    kani::cover!(r.is_ok(), "accepting run reachable");
    kani::cover!(r.is_err(), "rejecting run reachable");
}

// Two-path (and longer) multi-proofs are NOT under a symbolic harness: even a fully concrete
// two-terminator proof did not finish symbolic execution in 5 minutes under CBMC (the bisection
// branch: BitSlice ordering, binary_search_by with a closure, recursion), and symbolic variants
// exhausted 14 GB.  The stand-in below is a BOUNDED NATIVE ENUMERATION of the real function, run
// with `cargo kani playback` (ordinary debug build of the real crate).  It is labelled bounded and
// never counted as proved.

#[cfg(test)]
fn pos_from_bits(bits: &[bool]) -> crate::trie_pos::TriePosition {
    let mut p = crate::trie_pos::TriePosition::new();
    for b in bits {
        p.down(*b);
    }
    p
}

/// Every multi-proof with 2 or 3 paths whose terminals are terminators at every position of depth
/// 0..=3 or leaves with one of 4 key patterns, every claimed depth in {0..=4, 255, 256, 257,
/// usize::MAX}, 0..=3 siblings (fixed values), fixed root: `verify` must return, never panic.
/// (~2.6 million calls for pairs, a sampled sweep for triples.)
#[cfg(test)]
#[test]
fn native_enum_multi_verify_small_proofs_total() {
    let mut terminals: Vec<PathProofTerminal> = Vec::new();
    for depth in 0..=3usize {
        for v in 0..(1usize << depth) {
            let bits: Vec<bool> = (0..depth).map(|i| (v >> (depth - 1 - i)) & 1 == 1).collect();
            terminals.push(PathProofTerminal::Terminator(pos_from_bits(&bits)));
        }
    }
    for first in [0x00u8, 0x40, 0x80, 0xff] {
        let mut k = [0u8; 32];
        k[0] = first;
        terminals.push(PathProofTerminal::Leaf(LeafData { key_path: k, value_hash: [7u8; 32] }));
    }
    let depths: [usize; 9] = [0, 1, 2, 3, 4, 255, 256, 257, usize::MAX];
    let root = [3u8; 32];
    let mut calls = 0u64;
    let prev_hook = std::panic::take_hook();
    std::panic::set_hook(Box::new(|_| {}));
    let mut failure: Option<String> = None;
    'outer: for ta in &terminals {
        for tb in &terminals {
            for da in depths {
                for db in depths {
                    for ns in 0..=3usize {
                        let mp = MultiProof {
                            paths: vec![
                                MultiPathProof { terminal: ta.clone(), depth: da },
                                MultiPathProof { terminal: tb.clone(), depth: db },
                            ],
                            siblings: vec![[9u8; 32]; ns],
                        };
                        calls += 1;
                        let r = std::panic::catch_unwind(|| {
                            let _ = verify::<crate::hasher::Blake3Hasher>(&mp, root);
                        });
                        if r.is_err() {
                            failure = Some(format!("verify panicked on {:?}", mp));
                            break 'outer;
                        }
                    }
                }
            }
        }
    }
    // triples: honest depths plus each single depth perturbed
    if failure.is_none() {
        'outer3: for ta in &terminals {
            for tb in &terminals {
                for tc in &terminals {
                    for (da, db, dc) in [(1usize, 2usize, 2usize), (2, 2, 1), (0, 3, 3), (3, 1, 2), (256, 2, 256)] {
                        for ns in 0..=3usize {
                            let mp = MultiProof {
                                paths: vec![
                                    MultiPathProof { terminal: ta.clone(), depth: da },
                                    MultiPathProof { terminal: tb.clone(), depth: db },
                                    MultiPathProof { terminal: tc.clone(), depth: dc },
                                ],
                                siblings: vec![[9u8; 32]; ns],
                            };
                            calls += 1;
                            let r = std::panic::catch_unwind(|| {
                                let _ = verify::<crate::hasher::Blake3Hasher>(&mp, root);
                            });
                            if r.is_err() {
                                failure = Some(format!("verify panicked on {:?}", mp));
                                break 'outer3;
                            }
                        }
                    }
                }
            }
        }
    }
    std::panic::set_hook(prev_hook);
    println!("native_enum_multi_verify_small_proofs_total: {} calls", calls);
    assert!(failure.is_none(), "{}", failure.unwrap());
}

/// C08 (ordering and scope contract, bounded native enumeration): a multi-proof that `verify`
/// ACCEPTS has strictly ascending terminal paths - the fact `find_index_for`'s binary search and the
/// update verifier rely on - and pairwise disjoint scopes: no terminal's claimed scope
/// (path[..depth]) is a prefix of another's, so a terminal can never speak for keys that belong to
/// a sibling sub-trie.  For every pair/triple of small terminals (terminators of depth 0..=3 with
/// honest depths, 4 leaf patterns at depths 1..=3) and 0..=3 siblings, the root is computed with
/// the real `verify_range`, so the root comparison passes and only the structural checks decide.
#[cfg(test)]
#[test]
fn native_enum_multi_verify_accepts_only_sorted() {
    type B3 = crate::hasher::Blake3Hasher;
    // every small terminal with EVERY claimed depth 0..=3 (honest or not)
    let mut items: Vec<MultiPathProof> = Vec::new();
    for depth in 0..=3usize {
        for v in 0..(1usize << depth) {
            let bits: Vec<bool> = (0..depth).map(|i| (v >> (depth - 1 - i)) & 1 == 1).collect();
            for claimed in 0..=3usize {
                items.push(MultiPathProof { terminal: PathProofTerminal::Terminator(pos_from_bits(&bits)), depth: claimed });
            }
        }
    }
    for first in [0x00u8, 0x40, 0x80, 0xff] {
        for depth in 0..=3usize {
            let mut k = [0u8; 32];
            k[0] = first;
            items.push(MultiPathProof {
                terminal: PathProofTerminal::Leaf(LeafData { key_path: k, value_hash: [7u8; 32] }),
                depth,
            });
        }
    }
    let prev_hook = std::panic::take_hook();
    std::panic::set_hook(Box::new(|_| {}));
    let mut calls = 0u64;
    let mut accepted = 0u64;
    let mut failure: Option<String> = None;
    let mut check = |paths: Vec<MultiPathProof>, ns: usize, calls: &mut u64, accepted: &mut u64| -> Option<String> {
        let siblings = vec![[9u8; 32]; ns];
        *calls += 1;
        let computed = std::panic::catch_unwind(|| {
            let mut vp = Vec::new();
            let mut vb = Vec::new();
            verify_range::<B3>(0, &paths, &siblings, 0, &mut vp, &mut vb)
        });
        let root = match computed {
            Ok(Ok((root, used))) if used == siblings.len() => root,
            _ => return None,
        };
        let mp = MultiProof { paths, siblings };
        match std::panic::catch_unwind(|| verify::<B3>(&mp, root).is_ok()) {
            Ok(true) => {
                *accepted += 1;
                for w in mp.paths.windows(2) {
                    if !(w[0].terminal.path() < w[1].terminal.path()) {
                        return Some(format!("verify accepted a multi-proof whose paths are not strictly ascending: {:?}", mp.paths));
                    }
                }
                // scopes: terminal i speaks for the keys starting with path_i[..depth_i]; an accepted
                // proof must give every key to at most one terminal (no scope is a prefix of another)
                for i in 0..mp.paths.len() {
                    let pi = mp.paths[i].terminal.path();
                    if mp.paths[i].depth > pi.len() {
                        return Some(format!("verify accepted a terminal whose claimed depth exceeds its path: {:?}", mp.paths));
                    }
                    for j in 0..mp.paths.len() {
                        if i == j { continue; }
                        let pj = mp.paths[j].terminal.path();
                        let si = &pi[..mp.paths[i].depth];
                        let sj = &pj[..mp.paths[j].depth.min(pj.len())];
                        if sj.len() >= si.len() && sj[..si.len()] == *si {
                            return Some(format!("verify accepted overlapping scopes: terminal {} (depth {}) covers terminal {}: {:?}", i, mp.paths[i].depth, j, mp.paths));
                        }
                    }
                }
                None
            }
            _ => None,
        }
    };
    'outer: for a in &items {
        for b in &items {
            for ns in 0..=3usize {
                if let Some(f) = check(vec![a.clone(), b.clone()], ns, &mut calls, &mut accepted) {
                    failure = Some(f);
                    break 'outer;
                }
            }
            for c in &items {
                for ns in 0..=3usize {
                    if let Some(f) = check(vec![a.clone(), b.clone(), c.clone()], ns, &mut calls, &mut accepted) {
                        failure = Some(f);
                        break 'outer;
                    }
                }
            }
        }
    }
    std::panic::set_hook(prev_hook);
    println!("native_enum_multi_verify_accepts_only_sorted: {} calls, {} accepted", calls, accepted);
    assert!(accepted > 0, "vacuous: no enumerated proof was accepted");
    assert!(failure.is_none(), "{}", failure.unwrap());
}

/// C18 / C08 (bounded native enumeration): `verify_update` on every ACCEPTED small multi-proof
/// (pairs of small terminals, see above) with every op list of length 1..=3 over 8 key patterns
/// (ascending, descending and duplicate keys, inserts and deletes): it must return, never panic,
/// and must reject every op list that is not strictly ascending.
#[cfg(test)]
#[test]
fn native_enum_multi_verify_update_total() {
    type B3 = crate::hasher::Blake3Hasher;
    let mut items: Vec<MultiPathProof> = Vec::new();
    for depth in 0..=3usize {
        for v in 0..(1usize << depth) {
            let bits: Vec<bool> = (0..depth).map(|i| (v >> (depth - 1 - i)) & 1 == 1).collect();
            items.push(MultiPathProof { terminal: PathProofTerminal::Terminator(pos_from_bits(&bits)), depth });
        }
    }
    for first in [0x00u8, 0x40, 0x80, 0xff] {
        for depth in 1..=3usize {
            let mut k = [0u8; 32];
            k[0] = first;
            items.push(MultiPathProof {
                terminal: PathProofTerminal::Leaf(LeafData { key_path: k, value_hash: [7u8; 32] }),
                depth,
            });
        }
    }
    let key_of = |b: u8| { let mut k = [0u8; 32]; k[0] = b; k[31] = 1; k };
    let pats = [0x00u8, 0x20, 0x40, 0x60, 0x80, 0xa0, 0xc0, 0xe0];
    let mut op_lists: Vec<Vec<(KeyPath, Option<ValueHash>)>> = Vec::new();
    for &a in &pats {
        op_lists.push(vec![(key_of(a), Some([1u8; 32]))]);
        op_lists.push(vec![(key_of(a), None)]);
        for &b in &pats {
            op_lists.push(vec![(key_of(a), Some([1u8; 32])), (key_of(b), None)]);
            op_lists.push(vec![(key_of(a), Some([1u8; 32])), (key_of(b), Some([2u8; 32]))]);
            for &c in &[0x00u8, 0x40, 0x80, 0xe0] {
                op_lists.push(vec![(key_of(a), Some([1u8; 32])), (key_of(b), Some([2u8; 32])), (key_of(c), None)]);
            }
        }
    }
    let prev_hook = std::panic::take_hook();
    std::panic::set_hook(Box::new(|_| {}));
    let mut verified: Vec<VerifiedMultiProof> = Vec::new();
    let mut singles_and_pairs: Vec<Vec<MultiPathProof>> = items.iter().map(|a| vec![a.clone()]).collect();
    for a in &items {
        for b in &items {
            singles_and_pairs.push(vec![a.clone(), b.clone()]);
        }
    }
    for paths in singles_and_pairs {
        for ns in 0..=3usize {
            let siblings = vec![[9u8; 32]; ns];
            let computed = std::panic::catch_unwind(|| {
                let mut vp = Vec::new();
                let mut vb = Vec::new();
                verify_range::<B3>(0, &paths, &siblings, 0, &mut vp, &mut vb)
            });
            if let Ok(Ok((root, used))) = computed {
                if used == siblings.len() {
                    let mp = MultiProof { paths: paths.clone(), siblings };
                    if let Ok(Ok(v)) = std::panic::catch_unwind(|| verify::<B3>(&mp, root)) {
                        verified.push(v);
                    }
                }
            }
        }
    }
    let mut calls = 0u64;
    let mut failure: Option<String> = None;
    'outer: for v in &verified {
        for ops in &op_lists {
            calls += 1;
            let sorted = ops.windows(2).all(|w| w[0].0 < w[1].0);
            let r = std::panic::catch_unwind(|| verify_update::<B3>(v, ops.clone()));
            match r {
                Err(_) => {
                    failure = Some(format!("verify_update panicked on proof {:?} with ops keys {:?}", v, ops.iter().map(|o| o.0[0]).collect::<Vec<_>>()));
                    break 'outer;
                }
                Ok(Ok(_)) if !sorted => {
                    failure = Some(format!("verify_update accepted ops that are not strictly ascending: {:?} on proof {:?}", ops.iter().map(|o| o.0[0]).collect::<Vec<_>>(), v));
                    break 'outer;
                }
                _ => {}
            }
        }
    }
    std::panic::set_hook(prev_hook);
    println!("native_enum_multi_verify_update_total: {} calls on {} verified proofs", calls, verified.len());
    assert!(verified.len() > 10, "vacuous: too few verified proofs");
    assert!(failure.is_none(), "{}", failure.unwrap());
}

#[cfg(test)]
include!("/verif/.build/playback/core_multi_proof.inc");

// ---- C07 / C02 / C05: honest proofs over real small tries, bounded native enumeration --------------
// The reference trie below is written from docs/nomt_specification.md alone (empty = terminator, one
// pair = its leaf hash, otherwise an internal node over the two sub-tries split by the next key
// bit); it shares no code with build_trie, the provers or the verifiers.
#[cfg(test)]
mod native_trie {
    use super::*;
    use crate::hasher::{Blake3Hasher as H, NodeHasher};
    use crate::trie::{InternalData, KeyPath, LeafData, Node, ValueHash, TERMINATOR};

    pub fn bit(k: &KeyPath, i: usize) -> bool {
        (k[i / 8] >> (7 - i % 8)) & 1 == 1
    }

    pub fn ref_node(items: &[(KeyPath, ValueHash)], depth: usize) -> Node {
        match items.len() {
            0 => TERMINATOR,
            1 => H::hash_leaf(&LeafData { key_path: items[0].0, value_hash: items[0].1 }),
            _ => {
                let split = items.iter().position(|(k, _)| bit(k, depth)).unwrap_or(items.len());
                H::hash_internal(&InternalData {
                    left: ref_node(&items[..split], depth + 1),
                    right: ref_node(&items[split..], depth + 1),
                })
            }
        }
    }

    /// the path proof an honest prover hands out for `key` in the trie over `items` (sorted)
    pub fn ref_prove(items: &[(KeyPath, ValueHash)], key: &KeyPath) -> PathProof {
        let mut cur = items;
        let mut depth = 0;
        let mut siblings = Vec::new();
        while cur.len() > 1 {
            let split = cur.iter().position(|(k, _)| bit(k, depth)).unwrap_or(cur.len());
            let (l, r) = cur.split_at(split);
            if bit(key, depth) {
                siblings.push(ref_node(l, depth + 1));
                cur = r;
            } else {
                siblings.push(ref_node(r, depth + 1));
                cur = l;
            }
            depth += 1;
        }
        let terminal = match cur.first() {
            Some((k, v)) => PathProofTerminal::Leaf(LeafData { key_path: *k, value_hash: *v }),
            None => {
                let bits: Vec<bool> = (0..depth).map(|i| bit(key, i)).collect();
                PathProofTerminal::Terminator(pos_from_bits(&bits))
            }
        };
        PathProof { terminal, siblings }
    }

    pub fn universe() -> Vec<KeyPath> {
        let mut ks = Vec::new();
        for first in [0x00u8, 0x40, 0x80, 0xC0] {
            let mut k = [0u8; 32];
            k[0] = first;
            ks.push(k);
        }
        let mut twin = [0u8; 32]; // differs from the first key in the very last bit
        twin[31] = 1;
        ks.push(twin);
        let mut k = [0u8; 32];
        k[0] = 0x80;
        k[1] = 0x80;
        ks.push(k);
        ks.push([0xFF; 32]);
        ks.sort();
        ks
    }
}

/// Bounded native enumeration (not a proof): every subset of a 7-key universe (128 tries; keys
/// splitting at bits 0, 1, 8 and 255), every probe key of the universe, every non-empty set of
/// distinct honest path proofs (up to 127 per trie), three write patterns per proof set:
///  * [C02] `update::build_trie` over the set equals the reference root written from the specification;
///  * [C05] the honest path proof of every key verifies against that root and confirms exactly the
///    set's view (value for a present key, non-existence for an absent one);
///  * [C07] the multi-proof aggregated from any ordered set of distinct path proofs verifies
///    against the same root, answers every value / non-existence query exactly as the path proofs do
///    (out of scope exactly for keys none of them covers), and its update verification returns the
///    same new root as the per-path update verifier and as the reference trie of the updated set.
#[cfg(test)]
#[test]
fn native_enum_multi_equals_paths_on_real_tries() {
    use crate::hasher::Blake3Hasher as H;
    use crate::proof::path_proof::{self, PathUpdate};
    use crate::trie::{KeyPath, LeafData, ValueHash};
    use native_trie::*;
    let uni = universe();
    let vh = |i: usize, gen: u8| -> ValueHash { [(i as u8 + 1) ^ gen; 32] };
    let mut multi_checked = 0u64;
    for mask in 0u32..(1 << uni.len()) {
        let items: Vec<(KeyPath, ValueHash)> = (0..uni.len()).filter(|i| mask & (1 << i) != 0).map(|i| (uni[i], vh(i, 0))).collect();
        let root = ref_node(&items, 0);
        // [C02] the sub-trie builder agrees with the specification
        let built = crate::update::build_trie::<H>(0, items.iter().cloned(), |_| {});
        assert!(built == root, "build_trie differs from the specified trie root (key set {:#09b})", mask);
        // ... also as a sub-trie below a shared prefix of `skip` bits
        for skip in 1..=9usize {
            if !items.is_empty() && items.iter().all(|(k, _)| (0..skip).all(|b| bit(k, b) == bit(&items[0].0, b))) {
                let sub = crate::update::build_trie::<H>(skip, items.iter().cloned(), |_| {});
                assert!(sub == ref_node(&items, skip), "build_trie(skip = {}) differs from the specified sub-trie root (key set {:#09b})", skip, mask);
            }
        }

        // [C05] honest path proofs
        let mut proofs: Vec<(PathProof, crate::proof::path_proof::VerifiedPathProof)> = Vec::new();
        let mut covering: Vec<usize> = Vec::new(); // per universe key: index into `proofs`
        for (i, k) in uni.iter().enumerate() {
            let p = ref_prove(&items, k);
            let v = p.verify::<H>(k.view_bits::<Msb0>(), root).unwrap_or_else(|e| panic!("honest path proof rejected: {:?} (key set {:#09b}, key {})", e, mask, i));
            let present = mask & (1 << i) != 0;
            assert!(v.confirm_nonexistence(k).ok() == Some(!present), "path proof: non-existence of key {} (key set {:#09b})", i, mask);
            assert!(v.confirm_value(&LeafData { key_path: *k, value_hash: vh(i, 0) }).ok() == Some(present), "path proof: value of key {} (key set {:#09b})", i, mask);
            assert!(v.confirm_value(&LeafData { key_path: *k, value_hash: vh(i, 0x55) }).ok() == Some(false), "path proof confirms a wrong value");
            match proofs.iter().position(|(q, _)| q.terminal.path() == p.terminal.path()) {
                Some(j) => covering.push(j),
                None => {
                    covering.push(proofs.len());
                    proofs.push((p, v));
                }
            }
        }
        // order the distinct proofs by terminal path (what from_path_proofs asks for)
        let mut order: Vec<usize> = (0..proofs.len()).collect();
        order.sort_by(|a, b| proofs[*a].0.terminal.path().cmp(proofs[*b].0.terminal.path()));

        // [C07] every non-empty subset of the distinct proofs
        for q in 1u32..(1 << proofs.len()) {
            let chosen: Vec<usize> = order.iter().cloned().filter(|j| q & (1 << j) != 0).collect();
            let multi = MultiProof::from_path_proofs(chosen.iter().map(|j| proofs[*j].0.clone()).collect());
            let vm = verify::<H>(&multi, root).unwrap_or_else(|e| panic!("aggregated multi-proof rejected: {:?} (key set {:#09b}, proofs {:#b})", e, mask, q));
            for (i, k) in uni.iter().enumerate() {
                let covered = q & (1 << covering[i]) != 0;
                let leaf = LeafData { key_path: *k, value_hash: vh(i, 0) };
                if covered {
                    let pv = &proofs[covering[i]].1;
                    assert!(vm.confirm_nonexistence(k).ok() == pv.confirm_nonexistence(k).ok() && vm.confirm_nonexistence(k).is_ok(), "multi-proof and path proof disagree on non-existence of key {} (key set {:#09b}, proofs {:#b})", i, mask, q);
                    assert!(vm.confirm_value(&leaf).ok() == pv.confirm_value(&leaf).ok() && vm.confirm_value(&leaf).is_ok(), "multi-proof and path proof disagree on the value of key {} (key set {:#09b}, proofs {:#b})", i, mask, q);
                    // ... also when the claimed value is the one stored in the leaf the key lands on
                    // (an absent key must not borrow its neighbour's value)
                    if let Some(t) = pv.terminal() {
                        let borrowed = LeafData { key_path: *k, value_hash: t.value_hash };
                        assert!(vm.confirm_value(&borrowed).ok() == pv.confirm_value(&borrowed).ok(), "multi-proof and path proof disagree on key {} claimed with the value of the leaf it lands on (key set {:#09b}, proofs {:#b})", i, mask, q);
                        assert!(pv.confirm_value(&borrowed).ok() == Some(t.key_path == *k), "a path proof confirms a value for a key other than its leaf's");
                    }
                } else {
                    assert!(vm.confirm_nonexistence(k).is_err() && vm.confirm_value(&leaf).is_err(), "multi-proof answers for key {} which none of its paths covers (key set {:#09b}, proofs {:#b})", i, mask, q);
                }
            }
            // updates over the covered keys: delete all / overwrite-or-insert all / alternate
            for pattern in 0..3u8 {
                let mut ops: Vec<(KeyPath, Option<ValueHash>)> = Vec::new();
                for (i, k) in uni.iter().enumerate() {
                    if q & (1 << covering[i]) == 0 { continue; }
                    let op = match pattern {
                        0 => None,
                        1 => Some(vh(i, 0x77)),
                        _ => if i % 2 == 0 { Some(vh(i, 0x33)) } else { None },
                    };
                    ops.push((*k, op));
                }
                let mut updated: Vec<(KeyPath, ValueHash)> = items.iter().cloned().filter(|(k, _)| !ops.iter().any(|(o, _)| o == k)).collect();
                updated.extend(ops.iter().filter_map(|(k, v)| v.map(|v| (*k, v))));
                updated.sort();
                let want = ref_node(&updated, 0);
                let path_updates: Vec<PathUpdate> = chosen
                    .iter()
                    .map(|j| PathUpdate {
                        inner: proofs[*j].1.clone(),
                        ops: ops.iter().cloned().filter(|(k, _)| covering[uni.iter().position(|u| u == k).unwrap()] == *j).collect(),
                    })
                    .filter(|u| !u.ops.is_empty())
                    .collect();
                let by_paths = path_proof::verify_update::<H>(root, &path_updates).unwrap_or_else(|e| panic!("per-path update verification failed: {:?} (key set {:#09b}, proofs {:#b}, pattern {})", e, mask, q, pattern));
                assert!(by_paths == want, "per-path update verification returns another root than the updated trie (key set {:#09b}, proofs {:#b}, pattern {})", mask, q, pattern);
                let by_multi = verify_update::<H>(&vm, ops.clone()).unwrap_or_else(|e| panic!("multi-proof update verification failed: {:?} (key set {:#09b}, proofs {:#b}, pattern {})", e, mask, q, pattern));
                assert!(by_multi == want, "multi-proof update verification returns another root than the per-path verifier and the updated trie (key set {:#09b}, proofs {:#b}, pattern {})", mask, q, pattern);
            }
            multi_checked += 1;
        }
    }
    assert!(multi_checked > 2000);
}

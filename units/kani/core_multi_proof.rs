//! Kani harnesses for core/src/proof/multi_proof.rs (compiled into the real crate only under cfg(kani)).
#![allow(unused_imports, dead_code)]
use super::*;

#[cfg(test)]
include!("/verif/.build/playback/core_multi_proof.inc");

//! Kani harnesses for nomt/src/beatree/branch/node.rs (compiled into the real crate only under cfg(kani)).
#![allow(unused_imports, dead_code)]
use super::*;

#[cfg(test)]
include!("/verif/.build/playback/branch_node.inc");

// ---- BranchNodeBuilder::push_chunk across prefix lengths: bounded native enumeration ---------------
// push_chunk copies prefix-compressed separators from a base node into a node with another prefix
// length: the separators gain (prefix extension) or lose leading bits, bit-shifted into place by
// bitwise_memcpy.  Kani group k6_memcpy proves bitwise_memcpy under a precondition on its source
// slice; whether push_chunk's arithmetic meets it for every pair of prefix lengths is enumerated here
// (defect 11 was exactly such a pair: 62 carried bits starting at bit 3 of their first byte).
#[cfg(test)]
fn native_pattern_key(shared_bits: usize, tail: u8) -> Key {
    use bitvec::prelude::*;
    let mut k = [0xA5u8; 32];
    // behind the shared pattern: zeros, then the distinguishing tail in the last byte
    for i in shared_bits..256 { k.view_bits_mut::<Msb0>().set(i, false); }
    k[31] = tail;
    k
}

/// Bounded native enumeration (not a proof): four keys sharing at least 248 leading bits (pattern
/// 1010 0101.. then zeros, so that a lost or misplaced bit shows), the first one either as long as the
/// others or ending after 150 bits (trailing-zero compression: its separator can be shorter than the
/// stored prefix); a base node
/// storing a prefix of P bits, a new node storing Q bits, for every P, Q in 0..=200; the chunk copied
/// as a whole, behind a pushed separator, or from the middle; the destination page pre-filled with
/// ones.  Every separator and page number read back from the new node is the original one.
#[cfg(test)]
#[test]
fn native_enum_push_chunk_reprefixes_exactly() {
    use crate::beatree::ops::bit_ops::separator_len;
    let pool = crate::io::PagePool::new();
    let mut cases = 0usize;
    for short_first in [false, true] {
        let mut keys: Vec<Key> = Vec::new();
        let shared = if short_first { 150 } else { 200 };
        keys.push(native_pattern_key(shared, if short_first { 0 } else { 1 }));
        for t in 2..5u8 { keys.push(native_pattern_key(shared, t * 16 + 1)); }
        if short_first { assert!(separator_len(&keys[0]) == 150); }
        assert!(keys.windows(2).all(|w| w[0] < w[1]));
        for p in 0..=200usize {
            let mut b = BranchNodeBuilder::new(BranchNode::new_in(&pool), keys.len(), keys.len(), p);
            for (i, k) in keys.iter().enumerate() { b.push(*k, separator_len(k), 500 + i as u32); }
            let base = b.finish();
            for (i, k) in keys.iter().enumerate() {
                assert!(get_key(&base, i) == *k, "base node (prefix {}) does not read back key {}", p, i);
            }
            for q in 0..=200usize {
                for variant in 0..3 {
                    let mut page = BranchNode::new_in(&pool);
                    page.as_mut_slice().fill(0xFF);
                    let (from, to) = match variant { 0 => (0, 4), 1 => (1, 4), _ => (1, 3) };
                    let n = if variant == 2 { 3 } else { 4 };
                    let mut nb = BranchNodeBuilder::new(page, n, n, q);
                    if variant == 1 { nb.push(keys[0], separator_len(&keys[0]), 500); }
                    nb.push_chunk(&base, from, to, std::iter::empty());
                    if variant == 2 { nb.push(keys[3], separator_len(&keys[3]), 503); }
                    let node = nb.finish();
                    let first = if variant == 2 { 1 } else { 0 };
                    for j in 0..n {
                        let want = keys[first + j];
                        let got = get_key(&node, j);
                        assert!(got == want, "push_chunk {}..{} from a base with a {}-bit prefix into a node with a {}-bit prefix (variant {}, short first key {}): separator {} reads back {:02x?}, expected {:02x?}",
                            from, to, p, q, variant, short_first, j, &got[..], &want[..]);
                        assert!(node.node_pointer(j) == 500 + (first + j) as u32, "page number of separator {} lost", j);
                    }
                    cases += 1;
                }
            }
        }
    }
    assert!(cases == 2 * 201 * 201 * 3);
}

// (A Kani harness running push_chunk with bitwise_memcpy replaced by a stub that asserts its
// precondition - symbolic prefix lengths and separator lengths, two separators - was tried: CBMC runs
// out of memory in propositional reduction, twice, after 7 and 14 minutes; symbolic offsets into the
// 4 KiB page.  The enumeration above is the stand-in.)

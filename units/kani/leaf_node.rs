//! K3: leaf node layout (nomt/src/beatree/leaf/node.rs): what LeafBuilder writes, LeafNode reads back.
//! Uses the unsafe `from_raw_parts` cell-pointer views: CBMC memory-safety checks stay ON here.
#![allow(unused_imports, dead_code)]
use super::*;
use crate::io::page_pool::verif_kani::{kani_page_pool, stub_alloc, stub_dealloc};

/// Build a leaf with `n` cells (n concrete: harnesses for 1, 2, 3) with symbolic strictly ascending
/// keys, symbolic values of symbolic lengths 0..=6 and symbolic overflow flags; then:
///  * n(), key(i), value(i) return exactly what was pushed (value bytes, length, overflow flag);
///  * get(key_i) finds cell i; get(k) for any other symbolic k is None;
///  * cells are laid out back to back, the last one ending at PAGE_SIZE, none overlapping the
///    cell-pointer area.
/// Bounded in n and in the value lengths; keys/values/flags are fully symbolic.
fn leaf_roundtrip(n: usize) {
    const MAXV: usize = 6;
    let pool = kani_page_pool();
    let keys: [Key; 3] = kani::any();
    let vals: [[u8; MAXV]; 3] = kani::any();
    let lens: [usize; 3] = kani::any();
    let ovf: [bool; 3] = kani::any();
    let mut total = 0;
    let mut i = 0;
    while i < n {
        kani::assume(lens[i] <= MAXV);
        if i > 0 {
            kani::assume(keys[i - 1] < keys[i]);
        }
        total += lens[i];
        i += 1;
    }
    let mut b = LeafBuilder::new(&pool, n, total);
    let mut i = 0;
    while i < n {
        b.push_cell(keys[i], &vals[i][..lens[i]], ovf[i]);
        i += 1;
    }
    let leaf = b.finish();
    assert!(leaf.n() == n);
    let mut expect_start = PAGE_SIZE - total;
    let mut i = 0;
    while i < n {
        assert!(leaf.key(i) == keys[i]);
        let (v, o) = leaf.value(i);
        assert!(o == ovf[i]);
        assert!(v.len() == lens[i]);
        let j: usize = kani::any();
        kani::assume(j < MAXV);
        if j < lens[i] {
            assert!(v[j] == vals[i][j]);
        }
        // layout: value i starts where value i-1 ended; the first starts at PAGE_SIZE - total
        assert!(v.as_ptr() as usize - leaf.inner.as_ptr() as usize == expect_start);
        expect_start += lens[i];
        match leaf.get(&keys[i]) {
            Some((gv, go)) => {
                assert!(go == ovf[i] && gv.len() == lens[i]);
                assert!(gv.as_ptr() == v.as_ptr());
            }
            None => assert!(false, "pushed key not found"),
        }
        i += 1;
    }
    assert!(expect_start == PAGE_SIZE);
    assert!(2 + 34 * n <= PAGE_SIZE - total);
    let probe: Key = kani::any();
    let mut is_member = false;
    let mut i = 0;
    while i < n {
        if probe == keys[i] {
            is_member = true;
        }
        i += 1;
    }
    assert!(leaf.get(&probe).is_some() == is_member);
    kani::cover!(total > 0 && !is_member, "non-member probe reachable");
    std::mem::forget(leaf);
    std::mem::forget(pool);
}

macro_rules! leaf_harness {
    ($name:ident, $n:expr) => {
        #[kani::proof]
        #[kani::unwind(5)]
        #[kani::stub(crate::io::page_pool::PagePool::alloc, stub_alloc)]
        #[kani::stub(crate::io::page_pool::PagePool::dealloc, stub_dealloc)]
        fn $name() {
            leaf_roundtrip($n);
        }
    };
}
leaf_harness!(leaf_build_read_roundtrip_1, 1);
leaf_harness!(leaf_build_read_roundtrip_2, 2);
leaf_harness!(leaf_build_read_roundtrip_3, 3);

#[cfg(test)]
include!("/verif/.build/playback/leaf_node.inc");

//! K3 (leaf node layout, nomt/src/beatree/leaf/node.rs) -- NOT BUILT.
//! A harness that built a leaf with LeafBuilder::{new,push_cell,finish} and read it back through
//! LeafNode::{n,key,value,get} (one cell, symbolic key/value/flag, value length <= 6) ran CBMC out of
//! memory (> 50 GB after 90 s of SSA conversion): the 4096-byte page with symbolic cell offsets and
//! the `from_raw_parts` views is beyond this back end here.  The leaf layout is therefore not under
//! contract; DESIGN.md says so under C01/C16.
#![allow(unused_imports, dead_code)]
use super::*;

#[cfg(test)]
include!("/verif/.build/playback/leaf_node.inc");

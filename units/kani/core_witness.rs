//! Kani harnesses for core/src/witness.rs (compiled into the real crate only under cfg(kani)).
#![allow(unused_imports, dead_code)]
use super::*;

#[cfg(test)]
include!("/verif/.build/playback/core_witness.inc");

//! Shared constructors and ghost I/O log for the effect-order harnesses (K1).
#![allow(unused_imports, dead_code)]
use super::*;

/// An `IoHandle` whose `send`/`recv` are always stubbed by the harnesses that use it.
pub(crate) fn kani_io_handle() -> IoHandle {
    let (completion_sender, completion_receiver) = crossbeam_channel::unbounded();
    IoHandle {
        sender: Weak::new(),
        completion_sender,
        completion_receiver,
    }
}

// ---- ghost effect log -----------------------------------------------------------------------
pub(crate) const OP_SET_LEN: u8 = 1;
pub(crate) const OP_SEEK: u8 = 2;
pub(crate) const OP_WRITE: u8 = 3;
pub(crate) const OP_FSYNC: u8 = 4;
pub(crate) const OP_SEND: u8 = 5;
pub(crate) const OP_RECV: u8 = 6;
pub(crate) const OP_WRITE_AT: u8 = 7;
pub(crate) const OP_FDATASYNC: u8 = 8;

pub(crate) const LOG_CAP: usize = 12;
pub(crate) static mut LOG: [u8; LOG_CAP] = [0; LOG_CAP];
pub(crate) static mut LOG_ARG: [u64; LOG_CAP] = [0; LOG_CAP];
pub(crate) static mut LOG_N: usize = 0;
/// index in LOG of the first operation that was made to fail (usize::MAX = none)
pub(crate) static mut FAILED_AT: usize = usize::MAX;
/// number of completions handed out with an error result
pub(crate) static mut ERR_COMPLETIONS: usize = 0;

pub(crate) fn log_op(op: u8, arg: u64) -> usize {
    unsafe {
        let i = LOG_N;
        assert!(i < LOG_CAP, "ghost log overflow");
        LOG[i] = op;
        LOG_ARG[i] = arg;
        LOG_N = i + 1;
        i
    }
}

/// Log `op`; nondeterministically make it fail with an OS error.
pub(crate) fn fallible(op: u8, arg: u64) -> std::io::Result<()> {
    let i = log_op(op, arg);
    if kani::any() {
        unsafe {
            if FAILED_AT == usize::MAX {
                FAILED_AT = i;
            }
        }
        return Err(std::io::Error::from_raw_os_error(5));
    }
    Ok(())
}

pub(crate) fn log_len() -> usize {
    unsafe { LOG_N }
}
pub(crate) fn log_at(i: usize) -> u8 {
    unsafe { LOG[i] }
}
pub(crate) fn log_arg(i: usize) -> u64 {
    unsafe { LOG_ARG[i] }
}
pub(crate) fn failed_at() -> usize {
    unsafe { FAILED_AT }
}

// ---- std::fs::File stubs ---------------------------------------------------------------------
pub(crate) fn stub_set_len(_f: &File, size: u64) -> std::io::Result<()> {
    fallible(OP_SET_LEN, size)
}
pub(crate) fn stub_sync_all(_f: &File) -> std::io::Result<()> {
    fallible(OP_FSYNC, 0)
}
pub(crate) fn stub_sync_data(_f: &File) -> std::io::Result<()> {
    fallible(OP_FDATASYNC, 0)
}
pub(crate) fn stub_seek<'a>(_f: &mut &'a File, pos: std::io::SeekFrom) -> std::io::Result<u64>
where
    'a: 'a,
{
    let p = match pos {
        std::io::SeekFrom::Start(p) => p,
        _ => u64::MAX,
    };
    fallible(OP_SEEK, p).map(|_| p)
}
pub(crate) fn stub_write<'a>(_f: &mut &'a File, buf: &[u8]) -> std::io::Result<usize>
where
    'a: 'a,
{
    fallible(OP_WRITE, buf.len() as u64).map(|_| buf.len())
}
pub(crate) fn stub_write_all_at(_f: &File, buf: &[u8], offset: u64) -> std::io::Result<()> {
    // arg packs offset and length
    fallible(OP_WRITE_AT, (offset << 32) | buf.len() as u64)
}

/// A `File` value for harnesses: never used for real I/O (every method used is stubbed).
pub(crate) fn kani_file(fd: i32) -> std::mem::ManuallyDrop<File> {
    use std::os::fd::FromRawFd;
    std::mem::ManuallyDrop::new(unsafe { File::from_raw_fd(fd) })
}

#[cfg(test)]
include!("/verif/.build/playback/io_mod.inc");

//! Kani harnesses for nomt/src/io/mod.rs (compiled into the real crate only under cfg(kani)).
#![allow(unused_imports, dead_code)]
use super::*;

#[cfg(test)]
include!("/verif/.build/playback/io_mod.inc");

//! Shared constructors and ghost I/O log for the effect-order harnesses (K1).
#![allow(unused_imports, dead_code)]
use super::*;

/// An `IoHandle` whose `send`/`recv` are always stubbed by the harnesses that use it.
pub(crate) fn kani_io_handle() -> IoHandle {
    let (completion_sender, completion_receiver) = crossbeam_channel::unbounded();
    IoHandle {
        sender: Weak::new(),
        completion_sender,
        completion_receiver,
    }
}

// ---- ghost effect log -----------------------------------------------------------------------
pub(crate) const OP_SET_LEN: u8 = 1;
pub(crate) const OP_SEEK: u8 = 2;
pub(crate) const OP_WRITE: u8 = 3;
pub(crate) const OP_FSYNC: u8 = 4;
pub(crate) const OP_SEND: u8 = 5;
pub(crate) const OP_RECV: u8 = 6;
pub(crate) const OP_WRITE_AT: u8 = 7;
pub(crate) const OP_FDATASYNC: u8 = 8;

pub(crate) const LOG_CAP: usize = 12;
pub(crate) static mut LOG: [u8; LOG_CAP] = [0; LOG_CAP];
pub(crate) static mut LOG_ARG: [u64; LOG_CAP] = [0; LOG_CAP];
pub(crate) static mut LOG_N: usize = 0;
/// index in LOG of the first operation that was made to fail (usize::MAX = none)
pub(crate) static mut FAILED_AT: usize = usize::MAX;
/// number of completions handed out with an error result
pub(crate) static mut ERR_COMPLETIONS: usize = 0;

pub(crate) fn log_op(op: u8, arg: u64) -> usize {
    unsafe {
        let i = LOG_N;
        assert!(i < LOG_CAP, "ghost log overflow");
        LOG[i] = op;
        LOG_ARG[i] = arg;
        LOG_N = i + 1;
        i
    }
}

/// Log `op`; nondeterministically make it fail with an OS error.
pub(crate) fn fallible(op: u8, arg: u64) -> std::io::Result<()> {
    let i = log_op(op, arg);
    if kani::any() {
        unsafe {
            if FAILED_AT == usize::MAX {
                FAILED_AT = i;
            }
        }
        return Err(std::io::Error::from_raw_os_error(5));
    }
    Ok(())
}

pub(crate) fn log_len() -> usize {
    unsafe { LOG_N }
}
pub(crate) fn log_at(i: usize) -> u8 {
    unsafe { LOG[i] }
}
pub(crate) fn log_arg(i: usize) -> u64 {
    unsafe { LOG_ARG[i] }
}
pub(crate) fn failed_at() -> usize {
    unsafe { FAILED_AT }
}

// ---- std::fs::File stubs ---------------------------------------------------------------------
pub(crate) fn stub_set_len(_f: &File, size: u64) -> std::io::Result<()> {
    fallible(OP_SET_LEN, size)
}
pub(crate) fn stub_sync_all(_f: &File) -> std::io::Result<()> {
    fallible(OP_FSYNC, 0)
}
pub(crate) fn stub_sync_data(_f: &File) -> std::io::Result<()> {
    fallible(OP_FDATASYNC, 0)
}
pub(crate) fn stub_seek<'a>(_f: &mut &'a File, pos: std::io::SeekFrom) -> std::io::Result<u64>
where
    'a: 'a,
{
    let p = match pos {
        std::io::SeekFrom::Start(p) => p,
        _ => u64::MAX,
    };
    fallible(OP_SEEK, p).map(|_| p)
}
pub(crate) fn stub_write<'a>(_f: &mut &'a File, buf: &[u8]) -> std::io::Result<usize>
where
    'a: 'a,
{
    fallible(OP_WRITE, buf.len() as u64).map(|_| buf.len())
}
pub(crate) fn stub_write_all_at(_f: &File, buf: &[u8], offset: u64) -> std::io::Result<()> {
    // arg packs offset and length
    fallible(OP_WRITE_AT, (offset << 32) | buf.len() as u64)
}

/// A `File` value for harnesses: never used for real I/O (every method used is stubbed).
pub(crate) fn kani_file(fd: i32) -> std::mem::ManuallyDrop<File> {
    use std::os::fd::FromRawFd;
    std::mem::ManuallyDrop::new(unsafe { File::from_raw_fd(fd) })
}

#[cfg(test)]
include!("/verif/.build/playback/io_mod.inc");

// ---- IoPool::shutdown waits for writes in flight: native probe --------------------------------------
// C20 ("once the handle is dropped ... all background writers of the old handle have finished"): V18
// proves that the directory lock is released only after IoPool::shutdown returned and that shutdown
// closes the channel and then joins the workers; that a worker does not EXIT before the writes it
// has submitted to the kernel have completed is a fact about the worker loop (threads, io_uring) no
// contract here reaches.  This probe runs the real pool once: one write that cannot complete for
// 200 ms (its target is a pipe whose buffer is full) followed by 32 ordinary page writes; when
// shutdown returns, all 33 completions must have been delivered.
#[cfg(test)]
#[test]
fn native_probe_io_pool_shutdown_waits_for_in_flight_writes() {
    use std::os::fd::AsRawFd as _;
    let dir = tempfile::tempdir().unwrap();
    let file = std::fs::OpenOptions::new().read(true).write(true).create(true).open(dir.path().join("data")).unwrap();
    let mut fds = [0 as libc::c_int; 2];
    assert_eq!(unsafe { libc::pipe(fds.as_mut_ptr()) }, 0);
    let (pipe_rd, pipe_wr) = (fds[0], fds[1]);
    let chunk = [0u8; PAGE_SIZE];
    let mut filled = 0usize;
    unsafe {
        let fl = libc::fcntl(pipe_wr, libc::F_GETFL);
        assert_eq!(libc::fcntl(pipe_wr, libc::F_SETFL, fl | libc::O_NONBLOCK), 0);
        loop {
            let n = libc::write(pipe_wr, chunk.as_ptr() as *const libc::c_void, PAGE_SIZE);
            if n < 0 { break; }
            filled += n as usize;
        }
        assert_eq!(libc::fcntl(pipe_wr, libc::F_SETFL, fl), 0);
    }
    assert!(filled >= PAGE_SIZE);
    let page_pool = PagePool::new();
    let mut pool = start_io_pool(1, page_pool.clone());
    let handle = pool.make_handle();
    let mut page = page_pool.alloc_fat_page();
    page.fill(0xAB);
    handle.send(IoCommand { kind: IoKind::Write(pipe_wr, 0, page), user_data: 0 }).unwrap();
    for i in 0..32u64 {
        let mut page = page_pool.alloc_fat_page();
        page.fill(i as u8 + 1);
        handle.send(IoCommand { kind: IoKind::Write(file.as_raw_fd(), i, page), user_data: i + 1 }).unwrap();
    }
    let drainer = std::thread::spawn(move || {
        std::thread::sleep(std::time::Duration::from_millis(200));
        let mut buf = [0u8; PAGE_SIZE];
        let mut left = filled;
        while left > 0 {
            let n = unsafe { libc::read(pipe_rd, buf.as_mut_ptr() as *mut libc::c_void, std::cmp::min(left, PAGE_SIZE)) };
            assert!(n > 0);
            left -= n as usize;
        }
    });
    let t0 = std::time::Instant::now();
    pool.shutdown();
    let elapsed = t0.elapsed();
    let mut completed = 0;
    while let Ok(c) = handle.try_recv() {
        assert!(c.result.is_ok(), "a page write failed: {:?}", c.result);
        completed += 1;
    }
    drainer.join().unwrap();
    unsafe { libc::close(pipe_rd); libc::close(pipe_wr); }
    assert!(completed == 33, "IoPool::shutdown returned after {:?} with {} of 33 submitted writes completed (one of them cannot complete before 200 ms)", elapsed, completed);
}

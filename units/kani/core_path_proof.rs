//! Kani harnesses for core/src/proof/path_proof.rs (compiled into the real crate only under cfg(kani)).
#![allow(unused_imports, dead_code)]
use super::*;

#[cfg(test)]
include!("/verif/.build/playback/core_path_proof.inc");

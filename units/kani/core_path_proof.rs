//! K7 (path proofs): totality (C18) and scope contracts (C08) of the path-proof verifier.
#![allow(unused_imports, dead_code)]
use super::*;
use crate::proof::multi_proof::verif_kani::{any_siblings, any_terminal, H};

/// PathProof::verify for every proof with up to 2 siblings (any terminal, any sibling values),
/// every full-length key and every root: a verdict, never a panic (C18); an accepted proof's path
/// is exactly the first |siblings| bits of the key and its root is the given root.
#[kani::proof]
#[kani::unwind(4)]
fn path_verify_total() {
    let proof = PathProof { terminal: any_terminal(), siblings: any_siblings(2) };
    let key: KeyPath = kani::any();
    let root: Node = kani::any();
    let r = proof.verify::<H>(key.view_bits::<Msb0>(), root);
    if let Ok(v) = &r {
        assert!(v.path().len() == proof.siblings.len());
        assert!(v.root() == root);
    }
    kani::cover!(r.is_ok(), "accepting run reachable");
    kani::cover!(r.is_err(), "rejecting run reachable");
}

// confirm_value / confirm_nonexistence (in_scope compares two BitSlices) are not under a Kani
// harness: bitvec's slice equality made CBMC use 7-10 GB per harness without a verdict in 15 min,
// for every path length tried (0, 1, 7, 9, 256).  By reading: in_scope slices the 256-bit key with
// `..self.key_path.len()`, and key_path.len() == siblings.len() <= 256 is established by verify
// (checked by path_verify_total), so the slice cannot fail.

/// Same verifier with a key slice shorter than the sibling list / of any small length.
#[kani::proof]
#[kani::unwind(5)]
fn path_verify_short_key_total() {
    let proof = PathProof { terminal: any_terminal(), siblings: any_siblings(3) };
    let key: KeyPath = kani::any();
    let klen: usize = kani::any();
    kani::assume(klen <= 4);
    let root: Node = kani::any();
    let r = proof.verify::<H>(&key.view_bits::<Msb0>()[..klen], root);
    kani::cover!(r.is_ok(), "accepting run reachable");
    kani::cover!(matches!(r, Err(PathProofVerificationError::TooManySiblings)), "too-many-siblings reachable");
}

#[cfg(test)]
include!("/verif/.build/playback/core_path_proof.inc");

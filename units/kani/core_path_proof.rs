//! K7 (path proofs): totality (C18) and scope contracts (C08) of the path-proof verifier.
#![allow(unused_imports, dead_code)]
use super::*;
use crate::proof::multi_proof::verif_kani::{any_siblings, any_terminal, H};

/// PathProof::verify for every proof with up to 2 siblings (any terminal, any sibling values),
/// every full-length key and every root: a verdict, never a panic (C18); an accepted proof's path
/// is exactly the first |siblings| bits of the key and its root is the given root.
#[kani::proof]
#[kani::unwind(4)]
fn path_verify_total() {
    let proof = PathProof { terminal: any_terminal(), siblings: any_siblings(2) };
    let key: KeyPath = kani::any();
    let root: Node = kani::any();
    let r = proof.verify::<H>(key.view_bits::<Msb0>(), root);
    if let Ok(v) = &r {
        assert!(v.path().len() == proof.siblings.len());
        assert!(v.root() == root);
    }
    kani::cover!(r.is_ok(), "accepting run reachable");
    kani::cover!(r.is_err(), "rejecting run reachable");
}

// confirm_value / confirm_nonexistence (in_scope compares two BitSlices) are not under a Kani
// harness: bitvec's slice equality made CBMC use 7-10 GB per harness without a verdict in 15 min,
// for every path length tried (0, 1, 7, 9, 256).  By reading: in_scope slices the 256-bit key with
// `..self.key_path.len()`, and key_path.len() == siblings.len() <= 256 is established by verify
// (checked by path_verify_total), so the slice cannot fail.

/// Same verifier with a key slice shorter than the sibling list / of any small length.
#[kani::proof]
#[kani::unwind(5)]
fn path_verify_short_key_total() {
    let proof = PathProof { terminal: any_terminal(), siblings: any_siblings(3) };
    let key: KeyPath = kani::any();
    let klen: usize = kani::any();
    kani::assume(klen <= 4);
    let root: Node = kani::any();
    let r = proof.verify::<H>(&key.view_bits::<Msb0>()[..klen], root);
    kani::cover!(r.is_ok(), "accepting run reachable");
    kani::cover!(matches!(r, Err(PathProofVerificationError::TooManySiblings)), "too-many-siblings reachable");
}

/// C08 scope contract + C18 totality of the path-proof consumers (BOUNDED NATIVE ENUMERATION, run
/// with `cargo kani playback`; stands in for the symbolic harness CBMC could not finish):
/// for every proof depth 0..=4 and 256 (fixed sibling values), leaf and terminator terminals, the
/// proof is verified against the root computed with the real hash_path; then for the proven key
/// and each of its 256 single-bit flips as probe:
///  * confirm_value / confirm_nonexistence return Ok iff the probe agrees with the proven path on
///    its first `depth` bits; Ok(true) from confirm_value only for exactly the proven leaf;
///    Ok(false) from confirm_nonexistence only for the proven leaf's key;
///  * verify_update with 1..=2 ops built from the probes returns (no panic) and rejects ops that
///    are out of scope, duplicated or descending.
#[cfg(test)]
#[test]
fn native_enum_path_confirm_scope_and_update_total() {
    type B3 = crate::hasher::Blake3Hasher;
    let prev_hook = std::panic::take_hook();
    std::panic::set_hook(Box::new(|_| {}));
    let mut calls = 0u64;
    let mut failure: Option<String> = None;
    let bit = |k: &KeyPath, i: usize| (k[i / 8] >> (7 - (i % 8))) & 1;
    'outer: for &depth in &[0usize, 1, 2, 3, 4, 256] {
        for key_first in [0x00u8, 0x5a, 0xff] {
            let mut key = [0x33u8; 32];
            key[0] = key_first;
            for leaf_kind in 0..3 {
                // 0: terminator, 1: leaf with the looked-up key, 2: leaf with another key under the path
                // (a leaf whose key does not start with the proven path cannot sit in a proof that
                // verifies against an honest root without a hash collision, so it is not enumerated:
                // at depth 256 the path is the whole key and only the key itself qualifies)
                if leaf_kind == 2 && depth == 256 {
                    continue;
                }
                let mut other = key;
                other[31] ^= 1;
                let terminal = match leaf_kind {
                    0 => PathProofTerminal::Terminator(crate::trie_pos::TriePosition::from_bitslice(&key.view_bits::<Msb0>()[..depth.max(1)])),
                    1 => PathProofTerminal::Leaf(LeafData { key_path: key, value_hash: [7u8; 32] }),
                    _ => PathProofTerminal::Leaf(LeafData { key_path: other, value_hash: [8u8; 32] }),
                };
                let siblings: Vec<Node> = (0..depth).map(|i| { let mut s = [0u8; 32]; s[1] = i as u8; s[31] = 1; s }).collect();
                let proof = PathProof { terminal, siblings };
                let root = hash_path::<B3>(proof.terminal.node::<B3>(), &key.view_bits::<Msb0>()[..depth], proof.siblings.iter().rev().cloned());
                let v = match proof.verify::<B3>(key.view_bits::<Msb0>(), root) {
                    Ok(v) => v,
                    Err(_) => { failure = Some(format!("honest proof of depth {} rejected", depth)); break 'outer; }
                };
                for flip in 0..=256usize {
                    let mut probe = key;
                    if flip < 256 { probe[flip / 8] ^= 1 << (7 - (flip % 8)); }
                    let in_scope = (0..depth).all(|i| bit(&probe, i) == bit(&key, i));
                    calls += 1;
                    let leaf = LeafData { key_path: probe, value_hash: [7u8; 32] };
                    let r = std::panic::catch_unwind(|| (v.confirm_value(&leaf), v.confirm_nonexistence(&probe)));
                    let (cv, cn) = match r {
                        Ok(x) => x,
                        Err(_) => { failure = Some(format!("confirm_* panicked (depth {}, flip {})", depth, flip)); break 'outer; }
                    };
                    if cv.is_ok() != in_scope || cn.is_ok() != in_scope {
                        failure = Some(format!("scope check wrong: depth {} flip {} in_scope {} confirm_value {:?} confirm_nonexistence {:?}", depth, flip, in_scope, cv.is_ok(), cn.is_ok()));
                        break 'outer;
                    }
                    if let Ok(b) = cv {
                        let expect = v.terminal() == Some(&leaf);
                        if b != expect { failure = Some(format!("confirm_value answered {} (expected {}) depth {} flip {}", b, expect, depth, flip)); break 'outer; }
                    }
                    if let Ok(b) = cn {
                        let expect = v.terminal().map_or(true, |l| l.key_path != probe);
                        if b != expect { failure = Some(format!("confirm_nonexistence answered {} (expected {}) depth {} flip {}", b, expect, depth, flip)); break 'outer; }
                    }
                    // update verification with this probe (and a second op) as operations
                    for second in [None, Some(key), Some(probe)] {
                        let mut ops = vec![(probe, Some([9u8; 32]))];
                        if let Some(k2) = second { ops.push((k2, None)); }
                        let sorted = ops.windows(2).all(|w| w[0].0 < w[1].0);
                        let scoped = ops.iter().all(|o| (0..depth).all(|i| bit(&o.0, i) == bit(&key, i)));
                        let upd = PathUpdate { inner: v.clone(), ops };
                        calls += 1;
                        match std::panic::catch_unwind(|| verify_update::<B3>(root, core::slice::from_ref(&upd))) {
                            Err(_) => { failure = Some(format!("verify_update panicked (depth {}, flip {}, second {:?})", depth, flip, second.is_some())); break 'outer; }
                            Ok(Ok(_)) if !(sorted && scoped) => { failure = Some(format!("verify_update accepted ops that are unsorted or out of scope (depth {}, flip {})", depth, flip)); break 'outer; }
                            _ => {}
                        }
                    }
                }
            }
        }
    }
    std::panic::set_hook(prev_hook);
    println!("native_enum_path_confirm_scope_and_update_total: {} calls", calls);
    assert!(failure.is_none(), "{}", failure.unwrap());
}

#[cfg(test)]
include!("/verif/.build/playback/core_path_proof.inc");

//! K7 (path proofs): totality (C18) and scope contracts (C08) of the path-proof verifier.
#![allow(unused_imports, dead_code)]
use super::*;
use crate::proof::multi_proof::verif_kani::{any_siblings, any_terminal, H};

/// PathProof::verify for every proof with up to 2 siblings (any terminal, any sibling values),
/// every full-length key and every root: a verdict, never a panic (C18); an accepted proof's path
/// is exactly the first |siblings| bits of the key and its root is the given root.
#[kani::proof]
#[kani::unwind(4)]
fn path_verify_total() {
    let proof = PathProof { terminal: any_terminal(), siblings: any_siblings(2) };
    let key: KeyPath = kani::any();
    let root: Node = kani::any();
    let r = proof.verify::<H>(key.view_bits::<Msb0>(), root);
    if let Ok(v) = &r {
        assert!(v.path().len() == proof.siblings.len());
        assert!(v.root() == root);
    }
    kani::cover!(r.is_ok(), "accepting run reachable");
    kani::cover!(r.is_err(), "rejecting run reachable");
}

/// confirm_value / confirm_nonexistence on a verified path of concrete length L (harnesses for
/// L = 0, 1, 7, 9, 256; the path bits, terminal and probe are symbolic):
///  * C18: a verdict, never a panic;
///  * C08 (scope): Ok only for keys that start with the proven path; then confirm_value is true only
///    for exactly the proven leaf and confirm_nonexistence is false only for the proven leaf's key.
fn confirm_scope(len: usize) {
    let path_key: KeyPath = kani::any();
    let terminal: Option<LeafData> =
        if kani::any() { Some(LeafData { key_path: kani::any(), value_hash: kani::any() }) } else { None };
    let v = VerifiedPathProof {
        key_path: path_key.view_bits::<Msb0>()[..len].into(),
        terminal,
        siblings: Vec::new(), // not read by confirm_*
        root: kani::any(),
    };
    let probe: LeafData = LeafData { key_path: kani::any(), value_hash: kani::any() };
    // independent scope oracle: the first `len` bits agree
    let j: usize = kani::any();
    kani::assume(j < 256);
    let bit = |k: &KeyPath, i: usize| (k[i / 8] >> (7 - (i % 8))) & 1;
    let cv = v.confirm_value(&probe);
    let cn = v.confirm_nonexistence(&probe.key_path);
    assert!(cv.is_ok() == cn.is_ok());
    if cv.is_ok() && j < len {
        // accepted ==> in scope (every bit below len agrees)
        assert!(bit(&probe.key_path, j) == bit(&path_key, j));
    }
    if let Ok(b) = cv {
        assert!(b == (v.terminal() == Some(&probe)));
    }
    if let Ok(b) = cn {
        let same_key = match v.terminal() {
            Some(l) => l.key_path == probe.key_path,
            None => false,
        };
        assert!(b == !same_key);
    }
    kani::cover!(cv.is_ok(), "in-scope probe reachable");
    kani::cover!(len == 0 || cv.is_err(), "out-of-scope probe reachable");
}

macro_rules! confirm_harness {
    ($name:ident, $n:expr) => {
        #[kani::proof]
        #[kani::unwind(34)]
        fn $name() {
            confirm_scope($n);
        }
    };
}
confirm_harness!(path_confirm_scope_len0, 0);
confirm_harness!(path_confirm_scope_len1, 1);
confirm_harness!(path_confirm_scope_len7, 7);
confirm_harness!(path_confirm_scope_len9, 9);
confirm_harness!(path_confirm_scope_len256, 256);

/// Same verifier with a key slice shorter than the sibling list / of any small length.
#[kani::proof]
#[kani::unwind(5)]
fn path_verify_short_key_total() {
    let proof = PathProof { terminal: any_terminal(), siblings: any_siblings(3) };
    let key: KeyPath = kani::any();
    let klen: usize = kani::any();
    kani::assume(klen <= 4);
    let root: Node = kani::any();
    let r = proof.verify::<H>(&key.view_bits::<Msb0>()[..klen], root);
    kani::cover!(r.is_ok(), "accepting run reachable");
    kani::cover!(matches!(r, Err(PathProofVerificationError::TooManySiblings)), "too-many-siblings reachable");
}

#[cfg(test)]
include!("/verif/.build/playback/core_path_proof.inc");

//! K12 (bucket allocation): ProbeSequence::next and allocate_bucket of nomt/src/bitbox/mod.rs.
#![allow(unused_imports, dead_code)]
use super::*;
use crate::bitbox::meta_map::verif_kani::{any_meta_map, byte, meta_map_from, N};

fn stub_hash_page_id(_page_id: &PageId, _seed: &[u8; 16]) -> u64 {
    kani::any()
}

/// allocate_bucket on a map of `len` buckets (len symbolic in 1..=8, metadata symbolic), for every
/// execution that finishes within 6 probe rounds (bounded: longer probe chains are cut off):
///  * the returned bucket is in range and WAS empty or a tombstone (a full bucket is never reused:
///    C16 "every stored page reachable exactly once", C17 "new data only to free buckets");
///  * afterwards it is marked full with this page's hash tag;
///  * no other metadata byte changed; None changes nothing.
#[kani::proof]
#[kani::unwind(7)]
#[kani::stub(hash_page_id, stub_hash_page_id)]
fn allocate_bucket_takes_only_free_buckets() {
    let len: usize = kani::any();
    kani::assume(len >= 1 && len <= N);
    let before: [u8; N] = kani::any();
    let mut m = meta_map_from(before, len);
    let seed: [u8; 16] = kani::any();
    let r = allocate_bucket(&nomt_core::page_id::ROOT_PAGE_ID, &mut m, &seed);
    let other: usize = kani::any();
    kani::assume(other < N);
    match r {
        Some(BucketIndex(b)) => {
            let b = b as usize;
            assert!(b < len);
            assert!(before[b] == 0 || before[b] == 0x7f);
            assert!(byte(&m, b) & 0x80 != 0);
            if other != b {
                assert!(byte(&m, other) == before[other]);
            }
        }
        None => {
            assert!(byte(&m, other) == before[other]);
        }
    }
    kani::cover!(r.is_some(), "allocation reachable");
}

/// ProbeSequence::next: the bucket returned is in range and its class matches the variant.
#[kani::proof]
#[kani::unwind(7)]
fn probe_next_classifies() {
    let len: usize = kani::any();
    kani::assume(len >= 1 && len <= N);
    let m = any_meta_map(len);
    let hash: u64 = kani::any();
    let mut p = ProbeSequence { hash, bucket: hash % len as u64, step: 0 };
    let r = p.next(&m);
    match r {
        ProbeResult::Empty(b) => {
            assert!((b as usize) < len && byte(&m, b as usize) == 0);
        }
        ProbeResult::Tombstone(b) => {
            assert!((b as usize) < len && byte(&m, b as usize) == 0x7f);
        }
        ProbeResult::PossibleHit(b) => {
            assert!((b as usize) < len);
            assert!(byte(&m, b as usize) == ((hash >> 57) as u8 | 0x80));
        }
    }
    assert!(p.bucket() < len as u64);
    kani::cover!(matches!(r, ProbeResult::PossibleHit(_)), "possible hit reachable");
}

// ---- recover(): effect order of WAL replay (C04 / C14) -------------------------------------------
const HT_FD: i32 = 5;
const WAL_FD: i32 = 7;
static mut HT_DIRTY: bool = false; // an ht write has not been followed by an ht fsync yet
static mut HT_WRITES: u8 = 0;
static mut WAL_TRUNCATED: bool = false;
static mut TRUNCATED_WHILE_DIRTY: bool = false;
static mut WRITE_AFTER_TRUNCATE: bool = false;
static mut INJECTED: bool = false; // some I/O operation was made to fail
static mut STEP: u8 = 0;
static mut WAL_SEQN: u32 = 0;

fn inject() -> std::io::Result<()> {
    if kani::any() {
        unsafe { INJECTED = true; }
        return Err(std::io::Error::from_raw_os_error(5));
    }
    Ok(())
}
fn rstub_write_at(f: &File, buf: &[u8], _offset: u64) -> std::io::Result<usize> {
    use std::os::fd::AsRawFd;
    assert!(f.as_raw_fd() == HT_FD, "recover writes pages only to the hash-table file");
    unsafe {
        if WAL_TRUNCATED { WRITE_AFTER_TRUNCATE = true; }
        HT_WRITES += 1;
        HT_DIRTY = true;
    }
    inject().map(|_| buf.len())
}
fn rstub_sync_all(f: &File) -> std::io::Result<()> {
    use std::os::fd::AsRawFd;
    inject()?;
    if f.as_raw_fd() == HT_FD {
        unsafe { HT_DIRTY = false; }
    }
    Ok(())
}
fn rstub_seek<'a>(_f: &mut &'a File, _pos: std::io::SeekFrom) -> std::io::Result<u64>
where
    'a: 'a,
{
    inject().map(|_| 0)
}
/// writeout::truncate_wal is proved on its own (k1_wal: set_len 0, seek 0, fsync iff do_sync).
fn rstub_truncate_wal(f: &File, _do_sync: bool) -> std::io::Result<()> {
    use std::os::fd::AsRawFd;
    assert!(f.as_raw_fd() == WAL_FD);
    unsafe {
        WAL_TRUNCATED = true;
        if HT_DIRTY { TRUNCATED_WHILE_DIRTY = true; }
    }
    inject()
}
fn rstub_wal_new(_pool: &PagePool, _fd: &File) -> anyhow::Result<crate::bitbox::wal::WalBlobReader> {
    Ok(wal::verif_kani::kani_reader(unsafe { WAL_SEQN }))
}
/// up to two entries of either kind, then the end marker
fn rstub_read_entry(_r: &mut crate::bitbox::wal::WalBlobReader) -> anyhow::Result<Option<wal::WalEntry>> {
    let step = unsafe { STEP };
    unsafe { STEP = step + 1; }
    if step >= 2 || kani::any() {
        return Ok(None);
    }
    // concrete bucket: its meta page index is inserted into a std HashSet (SipHash), which CBMC
    // only gets through for concrete inputs
    let bucket: u64 = 1;
    // (Clear entries and Updates of a bucket whose meta byte changes insert into a std HashSet;
    // hashbrown's insert path is beyond CBMC here, so the harness replays Updates of a bucket
    // that is already marked full with this page's tag: the bucket page itself is rewritten)
    {
        Ok(Some(wal::WalEntry::Update {
            page_id: kani::any(),
            page_diff: crate::page_diff::PageDiff::default(),
            changed_nodes: Vec::new(),
            elided_children: crate::merkle::ElidedChildren::from_bytes(kani::any()),
            bucket,
        }))
    }
}
fn rstub_read_page(pool: &PagePool, _fd: &File, _pn: u64) -> std::io::Result<crate::io::FatPage> {
    inject()?;
    Ok(crate::io::page_pool::verif_kani::kani_fat_page(pool))
}
const RECOVER_HASH: u64 = 0xABCD_0000_0000_0001;
fn rstub_hash_raw(_page_id: [u8; 32], _seed: &[u8; 16]) -> u64 {
    RECOVER_HASH
}
/// std's RandomState draws its keys from the OS; fixed keys keep the HashSet hashing concrete.
fn rstub_random_state() -> std::hash::RandomState {
    unsafe { std::mem::transmute::<(u64, u64), std::hash::RandomState>((0, 0)) }
}

/// recover() for every WAL of up to two Update entries (any page id, any elided-children word),
/// every outcome of the sequence-number comparison and every single or multiple I/O failure
/// (bounded: see the note in rstub_read_entry; the meta-page write loop is not exercised):
///  * [C04] the WAL is truncated only when every hash-table write issued by the replay has been
///    followed by an fsync of the hash-table file, and nothing is written to it afterwards;
///  * [C04] a WAL of another sync is discarded without touching the hash table;
///  * [C14] Ok is returned only if no I/O operation failed.
#[kani::proof]
#[kani::unwind(5)]
#[kani::stub(<std::fs::File as std::os::unix::fs::FileExt>::write_at, rstub_write_at)]
#[kani::stub(std::fs::File::sync_all, rstub_sync_all)]
#[kani::stub(<&std::fs::File as std::io::Seek>::seek, rstub_seek)]
#[kani::stub(writeout::truncate_wal, rstub_truncate_wal)]
#[kani::stub(crate::bitbox::wal::WalBlobReader::new, rstub_wal_new)]
#[kani::stub(crate::bitbox::wal::WalBlobReader::read_entry, rstub_read_entry)]
#[kani::stub(crate::io::read_page, rstub_read_page)]
#[kani::stub(hash_raw_page_id, rstub_hash_raw)]
#[kani::stub(std::hash::RandomState::new, rstub_random_state)]
// anyhow captures a std Backtrace whenever an io::Error is converted with `?`: far beyond CBMC
#[kani::stub(std::backtrace::Backtrace::capture, std::backtrace::Backtrace::disabled)]
#[kani::stub(crate::io::PagePool::alloc, crate::io::page_pool::verif_kani::stub_alloc)]
#[kani::stub(crate::io::PagePool::dealloc, crate::io::page_pool::verif_kani::stub_dealloc)]
fn recover_syncs_ht_before_truncating_wal() {
    let ht = crate::io::verif_kani::kani_file(HT_FD);
    let walf = crate::io::verif_kani::kani_file(WAL_FD);
    let pool = crate::io::page_pool::verif_kani::kani_page_pool();
    let offsets = ht_file::verif_kani::kani_offsets(1);
    let mut map = meta_map::verif_kani::meta_map_one_page(4);
    map.set_full(1, RECOVER_HASH);
    let seed: [u8; 16] = kani::any();
    let sync_seqn: u32 = kani::any();
    unsafe { WAL_SEQN = kani::any(); }
    let same = unsafe { WAL_SEQN } == sync_seqn;
    let r = recover(sync_seqn, &ht, &walf, &pool, &offsets, &mut map, seed);
    unsafe {
        assert!(!TRUNCATED_WHILE_DIRTY, "WAL truncated while replayed hash-table pages were not fsynced");
        assert!(!WRITE_AFTER_TRUNCATE, "hash-table page written after the WAL was discarded");
        if !same {
            assert!(HT_WRITES == 0, "a WAL of another sync must not be applied");
        }
        if r.is_ok() {
            assert!(!INJECTED, "an I/O failure was swallowed");
            assert!(WAL_TRUNCATED);
        }
        kani::cover!(r.is_ok() && same && HT_WRITES >= 2, "replay with writes reachable");
        kani::cover!(r.is_ok() && !same, "stale WAL path reachable");
    }
}

#[cfg(test)]
include!("/verif/.build/playback/bitbox_mod.inc");


//! K12 (bucket allocation): ProbeSequence::next and allocate_bucket of nomt/src/bitbox/mod.rs.
#![allow(unused_imports, dead_code)]
use super::*;
use crate::bitbox::meta_map::verif_kani::{any_meta_map, byte, meta_map_from, N};

fn stub_hash_page_id(_page_id: &PageId, _seed: &[u8; 16]) -> u64 {
    kani::any()
}

/// allocate_bucket on a map of `len` buckets (len symbolic in 1..=8, metadata symbolic), for every
/// execution that finishes within 6 probe rounds (bounded: longer probe chains are cut off):
///  * the returned bucket is in range and WAS empty or a tombstone (a full bucket is never reused:
///    C16 "every stored page reachable exactly once", C17 "new data only to free buckets");
///  * afterwards it is marked full with this page's hash tag;
///  * no other metadata byte changed; None changes nothing.
#[kani::proof]
#[kani::unwind(7)]
#[kani::stub(hash_page_id, stub_hash_page_id)]
fn allocate_bucket_takes_only_free_buckets() {
    let len: usize = kani::any();
    kani::assume(len >= 1 && len <= N);
    let before: [u8; N] = kani::any();
    let mut m = meta_map_from(before, len);
    let seed: [u8; 16] = kani::any();
    let r = allocate_bucket(&nomt_core::page_id::ROOT_PAGE_ID, &mut m, &seed);
    let other: usize = kani::any();
    kani::assume(other < N);
    match r {
        Some(BucketIndex(b)) => {
            let b = b as usize;
            assert!(b < len);
            assert!(before[b] == 0 || before[b] == 0x7f);
            assert!(byte(&m, b) & 0x80 != 0);
            if other != b {
                assert!(byte(&m, other) == before[other]);
            }
        }
        None => {
            assert!(byte(&m, other) == before[other]);
        }
    }
    kani::cover!(r.is_some(), "allocation reachable");
}

/// ProbeSequence::next: the bucket returned is in range and its class matches the variant.
#[kani::proof]
#[kani::unwind(7)]
fn probe_next_classifies() {
    let len: usize = kani::any();
    kani::assume(len >= 1 && len <= N);
    let m = any_meta_map(len);
    let hash: u64 = kani::any();
    let mut p = ProbeSequence { hash, bucket: hash % len as u64, step: 0 };
    let r = p.next(&m);
    match r {
        ProbeResult::Empty(b) => {
            assert!((b as usize) < len && byte(&m, b as usize) == 0);
        }
        ProbeResult::Tombstone(b) => {
            assert!((b as usize) < len && byte(&m, b as usize) == 0x7f);
        }
        ProbeResult::PossibleHit(b) => {
            assert!((b as usize) < len);
            assert!(byte(&m, b as usize) == ((hash >> 57) as u8 | 0x80));
        }
    }
    assert!(p.bucket() < len as u64);
    kani::cover!(matches!(r, ProbeResult::PossibleHit(_)), "possible hit reachable");
}

#[cfg(test)]
include!("/verif/.build/playback/bitbox_mod.inc");


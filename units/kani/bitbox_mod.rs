//! K12 (bucket allocation): ProbeSequence::next and allocate_bucket of nomt/src/bitbox/mod.rs.
#![allow(unused_imports, dead_code)]
use super::*;
use crate::bitbox::meta_map::verif_kani::{any_meta_map, byte, meta_map_from, N};

fn stub_hash_page_id(_page_id: &PageId, _seed: &[u8; 16]) -> u64 {
    kani::any()
}

/// allocate_bucket on a map of `len` buckets (len symbolic in 1..=8, metadata symbolic), for every
/// execution that finishes within 6 probe rounds (bounded: longer probe chains are cut off):
///  * the returned bucket is in range and WAS empty or a tombstone (a full bucket is never reused:
///    C16 "every stored page reachable exactly once", C17 "new data only to free buckets");
///  * afterwards it is marked full with this page's hash tag;
///  * no other metadata byte changed; None changes nothing.
#[kani::proof]
#[kani::unwind(7)]
#[kani::stub(hash_page_id, stub_hash_page_id)]
fn allocate_bucket_takes_only_free_buckets() {
    let len: usize = kani::any();
    kani::assume(len >= 1 && len <= N);
    let before: [u8; N] = kani::any();
    let mut m = meta_map_from(before, len);
    let seed: [u8; 16] = kani::any();
    let r = allocate_bucket(&nomt_core::page_id::ROOT_PAGE_ID, &mut m, &seed);
    let other: usize = kani::any();
    kani::assume(other < N);
    match r {
        Some(BucketIndex(b)) => {
            let b = b as usize;
            assert!(b < len);
            assert!(before[b] == 0 || before[b] == 0x7f);
            assert!(byte(&m, b) & 0x80 != 0);
            if other != b {
                assert!(byte(&m, other) == before[other]);
            }
        }
        None => {
            assert!(byte(&m, other) == before[other]);
        }
    }
    kani::cover!(r.is_some(), "allocation reachable");
}

/// ProbeSequence::next: the bucket returned is in range and its class matches the variant.
#[kani::proof]
#[kani::unwind(7)]
fn probe_next_classifies() {
    let len: usize = kani::any();
    kani::assume(len >= 1 && len <= N);
    let m = any_meta_map(len);
    let hash: u64 = kani::any();
    let mut p = ProbeSequence { hash, bucket: hash % len as u64, step: 0 };
    let r = p.next(&m);
    match r {
        ProbeResult::Empty(b) => {
            assert!((b as usize) < len && byte(&m, b as usize) == 0);
        }
        ProbeResult::Tombstone(b) => {
            assert!((b as usize) < len && byte(&m, b as usize) == 0x7f);
        }
        ProbeResult::PossibleHit(b) => {
            assert!((b as usize) < len);
            assert!(byte(&m, b as usize) == ((hash >> 57) as u8 | 0x80));
        }
    }
    assert!(p.bucket() < len as u64);
    kani::cover!(matches!(r, ProbeResult::PossibleHit(_)), "possible hit reachable");
}

// ---- recover(): effect order of WAL replay (C04 / C14) -------------------------------------------
const HT_FD: i32 = 5;
const WAL_FD: i32 = 7;
static mut HT_DIRTY: bool = false; // an ht write has not been followed by an ht fsync yet
static mut HT_WRITES: u8 = 0;
static mut WAL_TRUNCATED: bool = false;
static mut TRUNCATED_WHILE_DIRTY: bool = false;
static mut WRITE_AFTER_TRUNCATE: bool = false;
static mut INJECTED: bool = false; // some I/O operation was made to fail
static mut STEP: u8 = 0;
static mut WAL_SEQN: u32 = 0;
/// CBMC does not finish once a single Update entry is replayed (no verdict in 10 min for 1 entry,
/// 86 s for none), so the symbolic harness covers WALs without entries; replays with entries are
/// covered by the bounded native enumeration below.
const MAX_ENTRIES: u8 = 0;

/// I/O failures are not injected in this harness: every `?` of recover() converts an io::Error into
/// an anyhow::Error (backtrace capture, formatting), which CBMC does not get through.  Error
/// propagation of the sync path is decided elsewhere (V1, V8, V9, k1_wal).
fn inject() -> std::io::Result<()> {
    Ok(())
}
fn rstub_write_at(f: &File, buf: &[u8], _offset: u64) -> std::io::Result<usize> {
    use std::os::fd::AsRawFd;
    assert!(f.as_raw_fd() == HT_FD, "recover writes pages only to the hash-table file");
    unsafe {
        if WAL_TRUNCATED { WRITE_AFTER_TRUNCATE = true; }
        HT_WRITES += 1;
        HT_DIRTY = true;
    }
    inject().map(|_| buf.len())
}
fn rstub_sync_all(f: &File) -> std::io::Result<()> {
    use std::os::fd::AsRawFd;
    inject()?;
    if f.as_raw_fd() == HT_FD {
        unsafe { HT_DIRTY = false; }
    }
    Ok(())
}
fn rstub_seek<'a>(_f: &mut &'a File, _pos: std::io::SeekFrom) -> std::io::Result<u64>
where
    'a: 'a,
{
    inject().map(|_| 0)
}
/// writeout::truncate_wal is proved on its own (k1_wal: set_len 0, seek 0, fsync iff do_sync).
fn rstub_truncate_wal(f: &File, _do_sync: bool) -> std::io::Result<()> {
    use std::os::fd::AsRawFd;
    assert!(f.as_raw_fd() == WAL_FD);
    unsafe {
        WAL_TRUNCATED = true;
        if HT_DIRTY { TRUNCATED_WHILE_DIRTY = true; }
    }
    inject()
}
fn rstub_wal_new(_pool: &PagePool, _fd: &File) -> anyhow::Result<crate::bitbox::wal::WalBlobReader> {
    Ok(wal::verif_kani::kani_reader(unsafe { WAL_SEQN }))
}
/// up to two entries of either kind, then the end marker
fn rstub_read_entry(_r: &mut crate::bitbox::wal::WalBlobReader) -> anyhow::Result<Option<wal::WalEntry>> {
    let step = unsafe { STEP };
    unsafe { STEP = step + 1; }
    if step >= MAX_ENTRIES || kani::any() {
        return Ok(None);
    }
    // concrete bucket: its meta page index is inserted into a std HashSet (SipHash), which CBMC
    // only gets through for concrete inputs
    let bucket: u64 = 1;
    // (Clear entries and Updates of a bucket whose meta byte changes insert into a std HashSet;
    // hashbrown's insert path is beyond CBMC here, so the harness replays Updates of a bucket
    // that is already marked full with this page's tag: the bucket page itself is rewritten)
    {
        Ok(Some(wal::WalEntry::Update {
            page_id: [7u8; 32],
            page_diff: crate::page_diff::PageDiff::default(),
            changed_nodes: Vec::new(),
            elided_children: crate::merkle::ElidedChildren::from_bytes([1, 2, 3, 4, 5, 6, 7, 8]),
            bucket,
        }))
    }
}
fn rstub_read_page(pool: &PagePool, _fd: &File, _pn: u64) -> std::io::Result<crate::io::FatPage> {
    inject()?;
    Ok(crate::io::page_pool::verif_kani::kani_fat_page(pool))
}
fn rstub_unpack(_d: &crate::page_diff::PageDiff, _nodes: &[[u8; 32]], _page: &mut [u8]) {}
const RECOVER_HASH: u64 = 0xABCD_0000_0000_0001;
fn rstub_hash_raw(_page_id: [u8; 32], _seed: &[u8; 16]) -> u64 {
    RECOVER_HASH
}
/// std's RandomState draws its keys from the OS; fixed keys keep the HashSet hashing concrete.
fn rstub_random_state() -> std::hash::RandomState {
    unsafe { std::mem::transmute::<(u64, u64), std::hash::RandomState>((0, 0)) }
}

/// recover() for a WAL without entries (MAX_ENTRIES), every store / WAL sequence number:
///  * [C04] the WAL is truncated only when every hash-table write issued by the replay has been
///    followed by an fsync of the hash-table file, and nothing is written to it afterwards;
///  * [C04] a WAL of another sync is discarded without touching the hash table;
///  (I/O failures are not injected here, see `inject`.)
#[kani::proof]
#[kani::unwind(5)]
#[kani::stub(<std::fs::File as std::os::unix::fs::FileExt>::write_at, rstub_write_at)]
#[kani::stub(std::fs::File::sync_all, rstub_sync_all)]
#[kani::stub(<&std::fs::File as std::io::Seek>::seek, rstub_seek)]
#[kani::stub(writeout::truncate_wal, rstub_truncate_wal)]
#[kani::stub(crate::bitbox::wal::WalBlobReader::new, rstub_wal_new)]
#[kani::stub(crate::bitbox::wal::WalBlobReader::read_entry, rstub_read_entry)]
#[kani::stub(crate::io::read_page, rstub_read_page)]
#[kani::stub(hash_raw_page_id, rstub_hash_raw)]
#[kani::stub(std::hash::RandomState::new, rstub_random_state)]
#[kani::stub(crate::page_diff::PageDiff::unpack_changed_nodes, rstub_unpack)]
#[kani::stub(crate::io::PagePool::alloc, crate::io::page_pool::verif_kani::stub_alloc)]
#[kani::stub(crate::io::PagePool::dealloc, crate::io::page_pool::verif_kani::stub_dealloc)]
fn recover_syncs_ht_before_truncating_wal() {
    let ht = crate::io::verif_kani::kani_file(HT_FD);
    let walf = crate::io::verif_kani::kani_file(WAL_FD);
    let pool = crate::io::page_pool::verif_kani::kani_page_pool();
    let offsets = ht_file::verif_kani::kani_offsets(1);
    let mut map = meta_map::verif_kani::meta_map_one_page(4);
    map.set_full(1, RECOVER_HASH);
    let seed: [u8; 16] = kani::any();
    let sync_seqn: u32 = kani::any();
    unsafe { WAL_SEQN = kani::any(); }
    let same = unsafe { WAL_SEQN } == sync_seqn;
    let r = recover(sync_seqn, &ht, &walf, &pool, &offsets, &mut map, seed);
    unsafe {
        assert!(!TRUNCATED_WHILE_DIRTY, "WAL truncated while replayed hash-table pages were not fsynced");
        assert!(!WRITE_AFTER_TRUNCATE, "hash-table page written after the WAL was discarded");
        if !same {
            assert!(HT_WRITES == 0, "a WAL of another sync must not be applied");
        }
        assert!(r.is_ok());
        assert!(WAL_TRUNCATED);
        kani::cover!(r.is_ok() && same, "replay path reachable");
        kani::cover!(r.is_ok() && !same, "stale WAL path reachable");
    }
}


// ---- recover() through DB::open on real files: bounded native enumeration ------------------------
// (run by `cargo kani playback`).  The test binary interposes the libc entry points std::fs::File
// uses, so the trace below is the real I/O of the real code; nothing is simulated.
#[cfg(test)]
pub(crate) mod native_io {
    use std::sync::atomic::{AtomicBool, Ordering};
    use std::sync::Mutex;
    /// tests that read the process-wide trace or arm the crash counter take this lock
    pub static SERIAL: Mutex<()> = Mutex::new(());
    pub static LOGGING: AtomicBool = AtomicBool::new(false);
    pub static TRACE: Mutex<Vec<(&'static str, String)>> = Mutex::new(Vec::new());
    /// crash-point enumeration (merkle::page_walker::verif_kani::native_enum_crash_points_*): when
    /// armed, the process exits with status 77 right BEFORE its CRASH_AT-th mutating system call
    pub static ARMED: AtomicBool = AtomicBool::new(false);
    pub static MUTATIONS: std::sync::atomic::AtomicI64 = std::sync::atomic::AtomicI64::new(0);
    pub static CRASH_AT: std::sync::atomic::AtomicI64 = std::sync::atomic::AtomicI64::new(-1);
    fn mutation() {
        if ARMED.load(Ordering::SeqCst) {
            let n = MUTATIONS.fetch_add(1, Ordering::SeqCst) + 1;
            if n == CRASH_AT.load(Ordering::SeqCst) {
                unsafe { libc::_exit(77) };
            }
        }
    }
    /// the raw x86-64 system call (libc's `syscall` is interposed below, so it cannot be used here)
    #[cfg(target_arch = "x86_64")]
    unsafe fn raw(n: libc::c_long, a1: usize, a2: usize, a3: usize, a4: usize, a5: usize, a6: usize) -> isize {
        let r: isize;
        core::arch::asm!("syscall", inlateout("rax") n as isize => r, in("rdi") a1, in("rsi") a2, in("rdx") a3, in("r10") a4, in("r8") a5, in("r9") a6,
            lateout("rcx") _, lateout("r11") _, options(nostack));
        r
    }
    /// kernel convention (-errno) -> libc convention (-1 and errno)
    unsafe fn ret(r: isize) -> isize {
        if r < 0 && r > -4096 {
            *libc::__errno_location() = (-r) as libc::c_int;
            -1
        } else {
            r
        }
    }
    /// libc's variadic `syscall`, which the io-uring crate uses for io_uring_enter: every submission
    /// of page writes counts as one mutating call (variadic integer arguments travel in the same
    /// registers as six fixed ones)
    #[no_mangle]
    pub unsafe extern "C" fn syscall(n: libc::c_long, a1: usize, a2: usize, a3: usize, a4: usize, a5: usize, a6: usize) -> libc::c_long {
        if n == libc::SYS_io_uring_enter && a2 > 0 {
            mutation();
        }
        ret(raw(n, a1, a2, a3, a4, a5, a6)) as libc::c_long
    }
    thread_local! {
        /// only system calls made by the thread that asked for the trace are recorded (other tests of
        /// the same process may be doing I/O at the same time)
        pub static LOG_HERE: std::cell::Cell<bool> = std::cell::Cell::new(false);
    }
    fn note(op: &'static str, fd: i32) {
        if op != "fsync" {
            mutation();
        }
        if LOGGING.load(Ordering::SeqCst) && LOG_HERE.with(|l| l.get()) {
            let name = std::fs::read_link(format!("/proc/self/fd/{}", fd))
                .ok()
                .and_then(|p| p.file_name().map(|n| n.to_string_lossy().into_owned()))
                .unwrap_or_default();
            TRACE.lock().unwrap().push((op, name));
        }
    }
    #[no_mangle]
    pub unsafe extern "C" fn fsync(fd: libc::c_int) -> libc::c_int {
        note("fsync", fd);
        ret(raw(libc::SYS_fsync, fd as usize, 0, 0, 0, 0, 0)) as libc::c_int
    }
    #[no_mangle]
    pub unsafe extern "C" fn fdatasync(fd: libc::c_int) -> libc::c_int {
        note("fsync", fd);
        ret(raw(libc::SYS_fdatasync, fd as usize, 0, 0, 0, 0, 0)) as libc::c_int
    }
    #[no_mangle]
    pub unsafe extern "C" fn pwrite64(fd: libc::c_int, buf: *const libc::c_void, n: libc::size_t, off: libc::off64_t) -> libc::ssize_t {
        note("pwrite", fd);
        ret(raw(libc::SYS_pwrite64, fd as usize, buf as usize, n, off as usize, 0, 0)) as libc::ssize_t
    }
    #[no_mangle]
    pub unsafe extern "C" fn ftruncate64(fd: libc::c_int, len: libc::off64_t) -> libc::c_int {
        note("ftruncate", fd);
        ret(raw(libc::SYS_ftruncate, fd as usize, len as usize, 0, 0, 0, 0)) as libc::c_int
    }
    #[no_mangle]
    pub unsafe extern "C" fn write(fd: libc::c_int, buf: *const libc::c_void, n: libc::size_t) -> libc::ssize_t {
        if fd > 2 {
            note("write", fd);
        }
        ret(raw(libc::SYS_write, fd as usize, buf as usize, n, 0, 0, 0)) as libc::ssize_t
    }
    #[no_mangle]
    pub unsafe extern "C" fn unlink(path: *const libc::c_char) -> libc::c_int {
        mutation();
        ret(raw(libc::SYS_unlink, path as usize, 0, 0, 0, 0, 0)) as libc::c_int
    }
}

#[cfg(test)]
#[derive(Clone, Debug)]
enum NativeWalEntry {
    Clear(u64),
    /// page id tag, changed node indices, elided word, bucket
    Update(u8, Vec<usize>, u64, u64),
}

#[cfg(test)]
fn native_page_id(tag: u8) -> [u8; 32] {
    let mut id = [0u8; 32];
    for (i, b) in id.iter_mut().enumerate() {
        *b = tag ^ (i as u8).wrapping_mul(3);
    }
    id
}

/// Bounded native enumeration (not a proof): a 16-bucket hash-table file with two stored pages, every
/// WAL of 0..=3 entries over a five-entry alphabet (clears of a full / an empty bucket, updates of a
/// stored page, of a fresh bucket and of a tombstoned-then-reused one), with the WAL's sequence number
/// equal to / different from the store's.  After DB::open:
///  * [C16/C04] the meta bytes ON DISK equal the in-memory meta map and the model (a cleared bucket
///    is a tombstone on disk, an updated one carries the tag of its page id), every updated bucket
///    page on disk is the old page with exactly the changed nodes replaced, labelled with the page id
///    and the elided-children word; untouched pages are unchanged; the occupancy is the number of
///    full buckets;
///  * [C04] the WAL is empty afterwards; a WAL of another sync changes nothing in the hash table;
///    if the replay wrote to the hash table, that file was fsynced after its last write and before
///    the WAL was truncated.
#[cfg(test)]
#[test]
fn native_enum_recover_postcondition() {
    let _serial = native_io::SERIAL.lock().unwrap_or_else(|e| e.into_inner());
    use crate::io::PAGE_SIZE;
    use crate::{merkle::ElidedChildren, page_diff::PageDiff};
    use std::os::unix::fs::FileExt;
    const BUCKETS: u32 = 16;
    let seed = [9u8; 16];
    let alpha = vec![
        NativeWalEntry::Clear(3),
        NativeWalEntry::Clear(7),
        NativeWalEntry::Update(0x30, vec![0, 5, 125], 0x0102_0304_0506_0708, 3),
        NativeWalEntry::Update(0x50, vec![], 7, 5),
        NativeWalEntry::Update(0x70, vec![1], u64::MAX, 7),
    ];
    let mut seqs: Vec<Vec<usize>> = vec![vec![]];
    for len in 1..=3 {
        let mut idx = vec![0usize; len];
        loop {
            seqs.push(idx.clone());
            let mut k = 0;
            while k < len {
                idx[k] += 1;
                if idx[k] < alpha.len() { break; }
                idx[k] = 0;
                k += 1;
            }
            if k == len { break; }
        }
    }
    let tag_of = |id: [u8; 32]| ((hash_raw_page_id(id, &seed) >> 57) as u8) | 0x80;
    let mut cases = 0;
    for seq in &seqs {
        for same_seqn in [true, false] {
            let dir = tempfile::tempdir().unwrap();
            ht_file::create(dir.path().to_path_buf(), BUCKETS, false).unwrap();
            let ht_path = dir.path().join("ht");
            let wal_path = dir.path().join("wal");
            // initial image: buckets 3 and 9 hold pages
            let mut meta = vec![0u8; PAGE_SIZE];
            let mut pages: Vec<Vec<u8>> = (0..BUCKETS).map(|_| vec![0u8; PAGE_SIZE]).collect();
            for (b, tag) in [(3usize, 0x30u8), (9, 0x90)] {
                meta[b] = tag_of(native_page_id(tag));
                for (i, x) in pages[b].iter_mut().enumerate() { *x = (i as u8) ^ tag; }
                pages[b][PAGE_SIZE - 32..].copy_from_slice(&native_page_id(tag));
            }
            {
                let f = std::fs::OpenOptions::new().write(true).open(&ht_path).unwrap();
                f.write_all_at(&meta, 0).unwrap();
                for b in 0..BUCKETS as usize {
                    f.write_all_at(&pages[b], (1 + b as u64) * PAGE_SIZE as u64).unwrap();
                }
            }
            // the WAL and the model of what replaying it means
            let mut builder = WalBlobBuilder::new().unwrap();
            builder.reset(if same_seqn { 41 } else { 42 });
            let mut model_meta = meta.clone();
            let mut model_pages = pages.clone();
            for (pos, &e) in seq.iter().enumerate() {
                match &alpha[e] {
                    NativeWalEntry::Clear(b) => {
                        builder.write_clear(*b);
                        model_meta[*b as usize] = 0x7f;
                    }
                    NativeWalEntry::Update(tag, changed, elided, b) => {
                        let id = native_page_id(*tag);
                        let mut diff = PageDiff::default();
                        for &c in changed { diff.set_changed(c); }
                        let nodes: Vec<[u8; 32]> = (0..changed.len()).map(|i| [(0xC0 + pos * 16 + i) as u8; 32]).collect();
                        builder.write_update(id, &diff, nodes.clone().into_iter(), ElidedChildren::from_bytes(elided.to_le_bytes()), *b);
                        let b = *b as usize;
                        model_meta[b] = tag_of(id);
                        for (i, &c) in changed.iter().enumerate() {
                            model_pages[b][c * 32..c * 32 + 32].copy_from_slice(&nodes[i]);
                        }
                        model_pages[b][PAGE_SIZE - 32..].copy_from_slice(&id);
                        model_pages[b][PAGE_SIZE - 40..PAGE_SIZE - 32].copy_from_slice(&elided.to_le_bytes());
                    }
                }
            }
            builder.finalize();
            std::fs::write(&wal_path, builder.as_slice()).unwrap();
            if !same_seqn {
                model_meta = meta.clone();
                model_pages = pages.clone();
            }

            let ht_fd = std::fs::OpenOptions::new().read(true).write(true).open(&ht_path).unwrap();
            let wal_fd = std::fs::OpenOptions::new().read(true).write(true).open(&wal_path).unwrap();
            native_io::TRACE.lock().unwrap().clear();
            native_io::LOG_HERE.with(|l| l.set(true));
            native_io::LOGGING.store(true, std::sync::atomic::Ordering::SeqCst);
            let db = DB::open(41, BUCKETS, seed, crate::io::PagePool::new(), ht_fd, wal_fd).unwrap();
            native_io::LOGGING.store(false, std::sync::atomic::Ordering::SeqCst);
            native_io::LOG_HERE.with(|l| l.set(false));
            let trace = native_io::TRACE.lock().unwrap().clone();
            let what = format!("wal entries {:?}, same sequence number: {}", seq.iter().map(|&e| alpha[e].clone()).collect::<Vec<_>>(), same_seqn);

            // on-disk image
            let disk = std::fs::read(&ht_path).unwrap();
            assert!(disk[..PAGE_SIZE] == model_meta[..], "meta bytes on disk differ from the replayed state ({})", what);
            for b in 0..BUCKETS as usize {
                let got = &disk[(1 + b) * PAGE_SIZE..(2 + b) * PAGE_SIZE];
                assert!(got == &model_pages[b][..], "bucket page {} on disk differs from the replayed state ({})", b, what);
            }
            // in-memory view agrees with the disk
            {
                let mm = db.shared.meta_map.read();
                for b in 0..BUCKETS as usize {
                    assert!(meta_map::verif_kani::byte(&mm, b) == model_meta[b], "in-memory meta byte {} differs from disk ({})", b, what);
                }
            }
            assert_eq!(db.utilization().occupied, model_meta.iter().filter(|x| **x & 0x80 != 0).count(), "occupancy ({})", what);
            assert_eq!(std::fs::metadata(&wal_path).unwrap().len(), 0, "WAL not collapsed ({})", what);
            // effect order
            let trunc = trace.iter().position(|(op, f)| *op == "ftruncate" && f == "wal").expect("no WAL truncation");
            assert!(!trace[trunc..].iter().any(|(op, f)| *op == "pwrite" && f == "ht"), "hash table written after the WAL was discarded ({}): {:?}", what, trace);
            if let Some(last) = trace[..trunc].iter().rposition(|(op, f)| *op == "pwrite" && f == "ht") {
                assert!(same_seqn, "a WAL of another sync was applied ({}): {:?}", what, trace);
                assert!(trace[last..trunc].iter().any(|(op, f)| *op == "fsync" && f == "ht"),
                    "WAL truncated while replayed hash-table pages were not fsynced ({}): {:?}", what, trace);
            }
            drop(db);
            cases += 1;
        }
    }
    assert!(cases == (1 + 5 + 25 + 125) * 2);
}

// ---- prepare_sync(): redo-log equivalence, bounded native enumeration -----------------------------
#[cfg(test)]
fn native_apply_ht_pages(ht_path: &std::path::Path, pages: &[(u64, std::sync::Arc<crate::io::FatPage>)]) {
    use std::os::unix::fs::FileExt;
    let f = std::fs::OpenOptions::new().write(true).open(ht_path).unwrap();
    for (pn, page) in pages {
        f.write_all_at(&page[..], pn * crate::io::PAGE_SIZE as u64).unwrap();
    }
}

#[cfg(test)]
fn native_open_db(dir: &std::path::Path, seqn: u32, buckets: u32, seed: [u8; 16]) -> DB {
    let ht_fd = std::fs::OpenOptions::new().read(true).write(true).open(dir.join("ht")).unwrap();
    let wal_fd = std::fs::OpenOptions::new().read(true).write(true).open(dir.join("wal")).unwrap();
    DB::open(seqn, buckets, seed, crate::io::PagePool::new(), ht_fd, wal_fd).unwrap()
}

/// Bounded native enumeration (not a proof) on the real DB::prepare_sync over real files: a
/// 16-bucket table holding three pages, then every subset of five changes (clear a stored page,
/// clear another, update a stored page in its known bucket, store a fresh page, store a fresh page
/// through a shared pending bucket).  For each:
///  * [C04/C03] redo-log equivalence: writing the returned hash-table pages over the old image gives
///    byte for byte the image that replaying the produced WAL blob over the old image gives
///    (DB::open -> recover on a copy);
///  * [C16] the meta bytes of that image equal the in-memory meta map (every bucket whose state
///    changed has its meta page among the returned pages), each stored page sits in the bucket the
///    cache update names and carries its label;
///  * [C19] the occupancy counter equals the number of full buckets.
#[cfg(test)]
#[test]
fn native_enum_prepare_sync_redo_equivalence() {
    use crate::io::{PagePool, PAGE_SIZE};
    use crate::page_cache::PageMut;
    use crate::page_diff::PageDiff;
    use crate::store::{BucketInfo, DirtyPage};
    use nomt_core::page_id::{ChildPageIndex, ROOT_PAGE_ID};
    const BUCKETS: u32 = 16;
    let seed = [5u8; 16];
    let pid = |i: u8| ROOT_PAGE_ID.child_page_id(ChildPageIndex::new(i).unwrap()).unwrap();
    let pool = PagePool::new();
    let mk_page = |id: &PageId, fill: u8, nodes: &[usize]| {
        let mut p = PageMut::pristine_empty(&pool, id);
        let mut diff = PageDiff::default();
        for &n in nodes {
            p.set_node(n, [fill ^ n as u8; 32]);
            diff.set_changed(n);
        }
        (p.freeze(), diff)
    };
    let mut cases = 0;
    for mask in 0u32..32 {
        let dir = tempfile::tempdir().unwrap();
        ht_file::create(dir.path().to_path_buf(), BUCKETS, false).unwrap();
        // round 0: three fresh pages, written out directly
        let db = native_open_db(dir.path(), 0, BUCKETS, seed);
        let mut wal = WalBlobBuilder::new().unwrap();
        let round0: Vec<(PageId, DirtyPage)> = (1..=3u8)
            .map(|i| {
                let (page, diff) = mk_page(&pid(i), 0x10 * i, &[0, 1, 7]);
                (pid(i), DirtyPage { page, diff, bucket: BucketInfo::FreshWithNoDependents })
            })
            .collect();
        let (ht_pages, cache) = db.prepare_sync(1, &pool, round0, &mut wal).ok().unwrap();
        native_apply_ht_pages(&dir.path().join("ht"), &ht_pages);
        let bucket_of = |id: &PageId| cache.iter().find(|(p, _)| p == id).unwrap().1.as_ref().unwrap().1;
        let old_page = |id: &PageId| cache.iter().find(|(p, _)| p == id).unwrap().1.as_ref().unwrap().0.clone();

        // round 1: the enumerated subset of changes
        let mut changes: Vec<(PageId, DirtyPage)> = Vec::new();
        let mut cleared = |id: PageId, changes: &mut Vec<(PageId, DirtyPage)>| {
            let mut diff = PageDiff::default();
            diff.set_cleared();
            changes.push((id.clone(), DirtyPage { page: old_page(&id), diff, bucket: BucketInfo::Known(bucket_of(&id)) }));
        };
        if mask & 1 != 0 { cleared(pid(1), &mut changes); }
        if mask & 2 != 0 {
            let mut p = old_page(&pid(2)).deep_copy();
            let mut diff = PageDiff::default();
            for n in [1usize, 64, 125] { p.set_node(n, [0xEE ^ n as u8; 32]); diff.set_changed(n); }
            changes.push((pid(2), DirtyPage { page: p.freeze(), diff, bucket: BucketInfo::Known(bucket_of(&pid(2))) }));
        }
        if mask & 4 != 0 { cleared(pid(3), &mut changes); }
        if mask & 8 != 0 {
            let (page, diff) = mk_page(&pid(4), 0x44, &[0, 2]);
            changes.push((pid(4), DirtyPage { page, diff, bucket: BucketInfo::FreshWithNoDependents }));
        }
        let shared = SharedMaybeBucketIndex::new(None);
        if mask & 16 != 0 {
            let (page, diff) = mk_page(&pid(5), 0x55, &[3]);
            changes.push((pid(5), DirtyPage { page, diff, bucket: BucketInfo::FreshOrDependent(shared.clone()) }));
        }
        let what = format!("change set {:#07b}", mask);
        let (ht_pages, cache1) = db.prepare_sync(2, &pool, changes, &mut wal).ok().unwrap();

        // image A: old image + returned pages; image B: old image + WAL replay
        let dir_a = tempfile::tempdir().unwrap();
        let dir_b = tempfile::tempdir().unwrap();
        for d in [dir_a.path(), dir_b.path()] {
            std::fs::copy(dir.path().join("ht"), d.join("ht")).unwrap();
            std::fs::write(d.join("wal"), b"").unwrap();
        }
        native_apply_ht_pages(&dir_a.path().join("ht"), &ht_pages);
        std::fs::write(dir_b.path().join("wal"), wal.as_slice()).unwrap();
        let db_b = native_open_db(dir_b.path(), 2, BUCKETS, seed);
        let mut img_a = std::fs::read(dir_a.path().join("ht")).unwrap();
        let mut img_b = std::fs::read(dir_b.path().join("ht")).unwrap();
        // a fresh page is written out whole (its untouched node slots hold whatever the pool memory
        // held) while the replay patches the changed nodes into whatever the bucket held on disk:
        // for fresh pages only the changed nodes, the elided-children word and the label are
        // meaningful and compared; their other bytes are masked out of the whole-image comparison
        for (id, nodes) in [(pid(4), vec![0usize, 2]), (pid(5), vec![3usize])] {
            if let Some((_, Some((_, BucketIndex(b))))) = cache1.iter().find(|(p, _)| *p == id) {
                let at = (1 + *b as usize) * PAGE_SIZE;
                for &n in &nodes {
                    assert!(img_a[at + n * 32..at + n * 32 + 32] == img_b[at + n * 32..at + n * 32 + 32], "node {} of fresh page {:?} ({})", n, id, what);
                }
                assert!(img_a[at + PAGE_SIZE - 40..at + PAGE_SIZE] == img_b[at + PAGE_SIZE - 40..at + PAGE_SIZE], "label/elided word of fresh page {:?} ({})", id, what);
                let keep_a = img_a[at + PAGE_SIZE - 40..at + PAGE_SIZE].to_vec();
                for x in img_a[at..at + PAGE_SIZE].iter_mut() { *x = 0; }
                for x in img_b[at..at + PAGE_SIZE].iter_mut() { *x = 0; }
                img_a[at + PAGE_SIZE - 40..at + PAGE_SIZE].copy_from_slice(&keep_a);
                img_b[at + PAGE_SIZE - 40..at + PAGE_SIZE].copy_from_slice(&keep_a);
            }
        }
        if img_a != img_b {
            let first = (0..img_a.len()).find(|&i| img_a[i] != img_b[i]).unwrap();
            panic!("writing the returned pages and replaying the WAL give different hash-table images ({}): first difference at page {} byte {}", what, first / PAGE_SIZE, first % PAGE_SIZE);
        }
        // meta on disk == in-memory map; stored pages where the cache update says
        {
            let mm = db.shared.meta_map.read();
            for b in 0..BUCKETS as usize {
                assert!(meta_map::verif_kani::byte(&mm, b) == img_a[b], "meta byte {} on disk differs from the in-memory map ({})", b, what);
            }
            assert_eq!(db.utilization().occupied, mm.full_count(), "occupancy counter ({})", what);
            assert_eq!(db_b.utilization().occupied, mm.full_count(), "occupancy after replay ({})", what);
        }
        for (id, upd) in &cache1 {
            if let Some((page, BucketIndex(b))) = upd {
                let at = (1 + *b as usize) * PAGE_SIZE;
                if *id == pid(2) {
                    assert!(img_a[at..at + PAGE_SIZE] == page.page_data()[..], "page {:?} is not stored in bucket {} ({})", id, b, what);
                }
                assert!(img_a[at + PAGE_SIZE - 32..at + PAGE_SIZE] == id.encode(), "label of bucket {} ({})", b, what);
                assert!(img_a[*b as usize] & 0x80 != 0, "bucket {} not marked full ({})", b, what);
            }
        }
        if mask & 16 != 0 {
            assert!(shared.get().is_some(), "pending bucket not published ({})", what);
        }
        cases += 1;
    }
    assert!(cases == 32);
}

// ---- every stored page is reachable through its probe sequence, exactly the stored ones -----------
/// Bounded native enumeration (not a proof) on the real DB::prepare_sync + PageLoader over real
/// files: an 8-bucket hash table (so probe sequences collide), six pages stored in two rounds, then
/// every subset of them cleared (64 cases; cleared buckets become tombstones in the middle of other
/// pages' probe sequences), the table re-opened from disk.  [C16/C05] After each: every page still
/// stored is found by PageLoader::{start_load, probe} + PageLoad::try_complete in the bucket recorded
/// for it and with its own content; every cleared page and two never-stored pages are reported absent.
#[cfg(test)]
#[test]
fn native_enum_probe_reaches_exactly_the_stored_pages() {
    use crate::io::{PagePool, PAGE_SIZE};
    use crate::page_cache::PageMut;
    use crate::page_diff::PageDiff;
    use crate::store::{BucketInfo, DirtyPage};
    use nomt_core::page_id::{ChildPageIndex, ROOT_PAGE_ID};
    const BUCKETS: u32 = 8;
    let seed = [0x21u8; 16];
    let pid = |i: u8| ROOT_PAGE_ID.child_page_id(ChildPageIndex::new(i).unwrap()).unwrap();
    let pool = PagePool::new();
    let io_pool = crate::io::start_io_pool(1, pool.clone());
    let mk = |id: &PageId, fill: u8| {
        let mut p = PageMut::pristine_empty(&pool, id);
        let mut diff = PageDiff::default();
        for n in [0usize, 3] { p.set_node(n, [fill; 32]); diff.set_changed(n); }
        DirtyPage { page: p.freeze(), diff, bucket: BucketInfo::FreshWithNoDependents }
    };
    let load = |db: &DB, id: &PageId| -> Option<(crate::io::FatPage, BucketIndex)> {
        let loader = PageLoader::new(db);
        let io = io_pool.make_handle();
        let mut l = loader.start_load(id.clone());
        loop {
            if !loader.probe(&mut l, &io, 0) { return None; }
            let c = io.recv().unwrap();
            c.result.unwrap();
            if let Some(r) = l.try_complete(c.command.kind.unwrap_buf()) { return Some(r); }
        }
    };
    for mask in 0u32..64 {
        let dir = tempfile::tempdir().unwrap();
        ht_file::create(dir.path().to_path_buf(), BUCKETS, false).unwrap();
        let db = native_open_db(dir.path(), 0, BUCKETS, seed);
        let mut wal = WalBlobBuilder::new().unwrap();
        let mut where_is: Vec<(PageId, crate::page_cache::Page, BucketIndex)> = Vec::new();
        for round in 0..2u8 {
            let batch: Vec<(PageId, DirtyPage)> = (0..3u8).map(|i| { let id = pid(round * 3 + i + 1); (id.clone(), mk(&id, 0x10 * (round * 3 + i + 1))) }).collect();
            let (ht_pages, cache) = db.prepare_sync(1 + round as u32, &pool, batch, &mut wal).ok().unwrap();
            native_apply_ht_pages(&dir.path().join("ht"), &ht_pages);
            for (id, upd) in cache { let (page, b) = upd.unwrap(); where_is.push((id, page, b)); }
        }
        let what = format!("cleared set {:#08b}", mask);
        let cleared: Vec<(PageId, DirtyPage)> = where_is.iter().enumerate().filter(|(i, _)| mask & (1 << i) != 0).map(|(_, (id, page, b))| {
            let mut diff = PageDiff::default();
            diff.set_cleared();
            (id.clone(), DirtyPage { page: page.clone(), diff, bucket: BucketInfo::Known(*b) })
        }).collect();
        if !cleared.is_empty() {
            let (ht_pages, _) = db.prepare_sync(3, &pool, cleared, &mut wal).ok().unwrap();
            native_apply_ht_pages(&dir.path().join("ht"), &ht_pages);
        }
        drop(db);
        // cold: from the files alone
        let db = native_open_db(dir.path(), 3, BUCKETS, seed);
        for (i, (id, page, b)) in where_is.iter().enumerate() {
            let got = load(&db, id);
            if mask & (1 << i) != 0 {
                assert!(got.is_none(), "a cleared page is still found by its probe sequence ({}, page {})", what, i);
            } else {
                let (data, bucket) = got.unwrap_or_else(|| panic!("a stored page is not reachable through its probe sequence ({}, page {} in bucket {})", what, i, b.0));
                assert!(bucket.0 == b.0, "a stored page is found in another bucket than recorded ({}, page {})", what, i);
                assert!(data[..PAGE_SIZE] == page.page_data()[..PAGE_SIZE], "a stored page is read back with other content ({}, page {})", what, i);
            }
        }
        for never in [pid(40), pid(63)] {
            assert!(load(&db, &never).is_none(), "a page that was never stored is found ({})", what);
        }
        assert_eq!(db.utilization().occupied, 6 - mask.count_ones() as usize, "occupancy after reopen ({})", what);
    }
}

#[cfg(test)]
include!("/verif/.build/playback/bitbox_mod.inc");


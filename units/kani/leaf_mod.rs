//! Kani harnesses for nomt/src/beatree/leaf/mod.rs (compiled into the real crate only under cfg(kani)).
#![allow(unused_imports, dead_code)]
use super::*;

#[cfg(test)]
include!("/verif/.build/playback/leaf_mod.inc");

//! Kani harnesses for nomt/src/bitbox/wal/mod.rs (compiled into the real crate only under cfg(kani)).
#![allow(unused_imports, dead_code)]
use super::*;

pub(crate) use super::read::verif_kani::kani_reader;

// ---- WAL blob codec: bounded native enumeration (run by `cargo kani playback`) ------------------
#[cfg(test)]
#[derive(Clone, Debug, PartialEq)]
enum NativeEntry {
    Clear(u64),
    Update([u8; 32], Vec<usize>, u64, u64),
}

#[cfg(test)]
fn native_alphabet() -> Vec<NativeEntry> {
    let mut id = [0u8; 32];
    for (i, b) in id.iter_mut().enumerate() {
        *b = 0xA0 ^ (i as u8).wrapping_mul(7);
    }
    vec![
        NativeEntry::Clear(0x0102_0304_0506_0708),
        NativeEntry::Clear(0),
        NativeEntry::Update(id, vec![], 0, 0x1112_1314_1516_1718),
        NativeEntry::Update(id, vec![0], 0x0807_0605_0403_0201, 3),
        NativeEntry::Update([0xFF; 32], vec![1, 64, 125], u64::MAX, u64::MAX - 1),
        NativeEntry::Update(id, (0..126).collect(), 1 << 63, 0x8000_0000_0000_0001),
    ]
}

#[cfg(test)]
fn native_node(tag: usize, i: usize) -> [u8; 32] {
    let mut n = [0u8; 32];
    for (j, b) in n.iter_mut().enumerate() {
        *b = (tag as u8).wrapping_mul(31) ^ (i as u8).wrapping_mul(5) ^ (j as u8);
    }
    n
}

/// Bounded native enumeration (not a proof): every sequence of 0..=3 entries over a six-entry
/// alphabet (clears and updates with 0, 1, 3 and 126 changed nodes, asymmetric multi-byte field
/// values) and three sequence numbers: what WalBlobBuilder writes, WalBlobReader reads back entry by
/// entry and field by field, followed by the end of the log; the blob is padded with zeros to a whole
/// number of pages.
#[cfg(test)]
#[test]
fn native_enum_wal_blob_roundtrip() {
    use crate::{merkle::ElidedChildren, page_diff::PageDiff};
    let alpha = native_alphabet();
    let mut builder = WalBlobBuilder::new().unwrap();
    let mut cases = 0;
    let mut seqs: Vec<Vec<usize>> = vec![vec![]];
    for len in 1..=3 {
        let mut idx = vec![0usize; len];
        loop {
            seqs.push(idx.clone());
            let mut k = 0;
            while k < len {
                idx[k] += 1;
                if idx[k] < alpha.len() { break; }
                idx[k] = 0;
                k += 1;
            }
            if k == len { break; }
        }
    }
    for seq in &seqs {
        for seqn in [0u32, 0x0A0B_0C0D, u32::MAX] {
            builder.reset(seqn);
            for (pos, &e) in seq.iter().enumerate() {
                match &alpha[e] {
                    NativeEntry::Clear(b) => builder.write_clear(*b),
                    NativeEntry::Update(id, changed, elided, bucket) => {
                        let mut diff = PageDiff::default();
                        for &c in changed { diff.set_changed(c); }
                        let nodes: Vec<[u8; 32]> = (0..changed.len()).map(|i| native_node(pos, i)).collect();
                        builder.write_update(*id, &diff, nodes.into_iter(), ElidedChildren::from_bytes(elided.to_le_bytes()), *bucket);
                    }
                }
            }
            builder.finalize();
            let blob = builder.as_slice().to_vec();
            assert!(blob.len() % crate::io::PAGE_SIZE == 0 && !blob.is_empty());
            let mut reader = super::read::verif_kani::kani_reader_over(blob.clone());
            assert_eq!(reader.sync_seqn(), seqn);
            for (pos, &e) in seq.iter().enumerate() {
                let got = reader.read_entry().unwrap().expect("entry missing");
                match (&alpha[e], got) {
                    (NativeEntry::Clear(b), WalEntry::Clear { bucket }) => assert_eq!(*b, bucket),
                    (NativeEntry::Update(id, changed, elided, bucket), WalEntry::Update { page_id, page_diff, changed_nodes, elided_children, bucket: got_bucket }) => {
                        assert_eq!(*id, page_id);
                        assert_eq!(*bucket, got_bucket);
                        assert_eq!(elided.to_le_bytes(), elided_children.to_bytes());
                        let mut diff = PageDiff::default();
                        for &c in changed { diff.set_changed(c); }
                        assert_eq!(diff, page_diff);
                        let want: Vec<[u8; 32]> = (0..changed.len()).map(|i| native_node(pos, i)).collect();
                        assert_eq!(want, changed_nodes);
                    }
                    (want, got) => panic!("entry {} decoded as another kind: wrote {:?}, read {:?}", pos, want, got),
                }
            }
            assert!(reader.read_entry().unwrap().is_none(), "entries after the last one");
            let used = reader_offset(&reader);
            assert!(blob[used..].iter().all(|b| *b == 0), "padding is not zero");
            cases += 1;
        }
    }
    assert!(cases == (1 + 6 + 36 + 216) * 3);
}
#[cfg(test)]
fn reader_offset(r: &WalBlobReader) -> usize {
    super::read::verif_kani::kani_reader_offset(r)
}

#[cfg(test)]
include!("/verif/.build/playback/bitbox_wal.inc");

//! Kani harnesses for nomt/src/bitbox/wal/mod.rs (compiled into the real crate only under cfg(kani)).
#![allow(unused_imports, dead_code)]
use super::*;

pub(crate) use super::read::verif_kani::kani_reader;

#[cfg(test)]
include!("/verif/.build/playback/bitbox_wal.inc");

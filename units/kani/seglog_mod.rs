//! Kani harnesses for nomt/src/seglog/mod.rs (compiled into the real crate only under cfg(kani)).
#![allow(unused_imports, dead_code)]
use super::*;


// ---- probe: is the live range the rollback layer publishes always re-openable? -------------------
/// The rollback layer publishes (start BEFORE pruning, end) in the meta page and prunes to start + 1
/// after the meta page is durable.  With records big enough to fill a segment each, that pruning
/// deletes the segment holding the published start.  Can the log be re-opened with the published
/// range afterwards?
#[cfg(test)]
#[test]
fn native_probe_published_start_survives_pruning() {
    let dir = tempfile::tempdir().unwrap();
    let dir_fd = Arc::new(std::fs::File::open(dir.path()).unwrap());
    let seg_size = 4096u64;
    let mut log = open(dir.path().to_path_buf(), dir_fd.clone(), "rollback".to_string(), seg_size, RecordId::nil(), RecordId::nil(), |_, _| Ok(())).unwrap();
    for i in 0..4u8 {
        log.append(&vec![i; 3000]).unwrap();
    }
    let (start, end) = log.live_range();
    // meta page now says (start, end); post-meta pruning of the oldest delta:
    log.prune_oldest(start.next()).unwrap();
    drop(log);
    let mut seen = Vec::new();
    let r = open(dir.path().to_path_buf(), dir_fd, "rollback".to_string(), seg_size, start, end, |id, _| { seen.push(id); Ok(()) });
    assert!(r.is_ok(), "the log cannot be re-opened with the published live range ({}, {}): {:?}; records seen {:?}", start, end, r.err(), seen);
}

#[cfg(test)]
include!("/verif/.build/playback/seglog_mod.inc");

//! Kani harnesses for nomt/src/beatree/ops/update/mod.rs (compiled into the real crate only under cfg(kani)).
#![allow(unused_imports, dead_code)]
use super::*;

#[cfg(test)]
include!("/verif/.build/playback/beatree_update.inc");

//! Leaf updater: BOUNDED NATIVE ENUMERATION (run with `cargo kani playback`, ordinary debug build of
//! the real crate; no solver) of the contract between `LeafUpdater::ingest` and its
//! `with_deleted_overflow` callback.  The leaf page code is beyond CBMC here (see leaf_node.rs) and
//! `impl FnMut` callbacks cannot be given a "was called" postcondition in Verus, so this labelled
//! stand-in is what checks the obligation.  Never counted as proved.
#![allow(unused_imports, dead_code)]
use super::*;

/// C19 (storage is reclaimed): whenever a key whose current cell is an overflow cell is deleted or
/// overwritten, `ingest` reports exactly that old cell to the callback (so its overflow pages are
/// freed) - whatever the key's position in the leaf and whatever else changes in the same batch -
/// and reports nothing for untouched keys or for keys whose cell is stored inline.
/// Enumerated: a base leaf of 3 cells, every combination of (overflow / inline) per cell, every
/// subset of changed keys, delete and overwrite: 8 x 8 x 2 = 128 cases.
#[cfg(test)]
#[test]
fn native_enum_leaf_ingest_reports_deleted_overflow_cells() {
    use crate::beatree::leaf::node::LeafBuilder;
    use leaf_updater::{BaseLeaf, LeafUpdater};
    use std::sync::Arc;
    let page_pool = crate::io::PagePool::new();
    let keys: [crate::beatree::Key; 3] = [[0x10; 32], [0x20; 32], [0x30; 32]];
    let mut cases = 0u64;
    for overflow_mask in 0..8u8 {
        for changed_mask in 0..8u8 {
            for delete in [true, false] {
                // old cells: an overflow cell is 44 bytes (size, hash, one page number), an inline
                // value 5 bytes; contents identify the key
                let old: Vec<(Vec<u8>, bool)> = (0..3)
                    .map(|i| {
                        let ov = overflow_mask & (1 << i) != 0;
                        (vec![0xA0 + i as u8; if ov { 44 } else { 5 }], ov)
                    })
                    .collect();
                let total: usize = old.iter().map(|c| c.0.len()).sum();
                let mut b = LeafBuilder::new(&page_pool, 3, total);
                for i in 0..3 {
                    b.push_cell(keys[i], &old[i].0, old[i].1);
                }
                let node = Arc::new(b.finish());
                let mut updater = LeafUpdater::new(page_pool.clone(), Some(BaseLeaf::new(node, [0u8; 32])), None);
                let mut reported: Vec<Vec<u8>> = Vec::new();
                let mut expected: Vec<Vec<u8>> = Vec::new();
                for i in 0..3 {
                    if changed_mask & (1 << i) == 0 {
                        continue;
                    }
                    if old[i].1 {
                        expected.push(old[i].0.clone());
                    }
                    let change = if delete { None } else { Some(vec![0x77u8; 3]) };
                    updater.ingest(keys[i], change, false, |cell| reported.push(cell.to_vec()));
                }
                cases += 1;
                assert_eq!(
                    reported, expected,
                    "overflow cells reported for freeing differ from the overflow cells removed (overflow_mask={:03b} changed_mask={:03b} delete={}): a removed overflow value's pages would leak",
                    overflow_mask, changed_mask, delete
                );
            }
        }
    }
    println!("native_enum_leaf_ingest_reports_deleted_overflow_cells: {} calls", cases);
}

#[cfg(test)]
include!("/verif/.build/playback/beatree_update.inc");

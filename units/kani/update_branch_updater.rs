//! Kani harnesses for nomt/src/beatree/ops/update/branch_updater.rs (compiled into the real crate only under cfg(kani)).
#![allow(unused_imports, dead_code)]
use super::*;

#[cfg(test)]
include!("/verif/.build/playback/update_branch_updater.inc");

// ---- the binary search V19 assumes: bounded native enumeration -----------------------------------
/// Bounded native enumeration (not a proof) of `ops::find_key_pos` - the contract Verus unit v19
/// assumes for it - on real branch nodes of 1..=7 separators with every split into prefix-compressed
/// head / uncompressed tail: for every start position `low` and every probe key (each separator, a
/// key just below and just above each, the smallest and the largest key) such that the separators
/// below `low` are smaller than the probe, the result is (true, index of the key) or (false, index of
/// the first separator greater than the key), never an index below `low`; and `BaseBranch::find_key`
/// moves its cursor accordingly.
#[cfg(test)]
#[test]
fn native_enum_find_key_pos_contract() {
    use crate::beatree::ops::find_key_pos;
    use crate::beatree::ops::update::branch_ops::verif_kani::{native_base, native_key};
    let mut cases = 0;
    for n in 1..=7usize {
        for pc in 1..=n {
            let base = native_base(n, pc);
            let keys: Vec<Key> = (0..n).map(|i| base.key(i)).collect();
            let mut probes: Vec<Key> = vec![[0u8; 32], [0xFF; 32]];
            for k in &keys {
                probes.push(*k);
                let mut below = *k;
                below[31] = below[31].wrapping_sub(1);
                if below[31] == 0xFF { below[30] = below[30].wrapping_sub(1); }
                probes.push(below);
                let mut above = *k;
                above[31] |= 1;
                probes.push(above);
            }
            for probe in &probes {
                for low in 0..=n {
                    if keys[..low].iter().any(|k| k >= probe) { continue; }
                    let (found, pos) = find_key_pos(&base.node, probe, Some(low));
                    let want_pos = keys.iter().position(|k| k >= probe).unwrap_or(n);
                    let want_found = want_pos < n && keys[want_pos] == *probe;
                    // a probe below the node's prefix is answered with position 0 whatever `low` is; that
                    // cannot happen when the separators below `low` are smaller than the probe and low > 0
                    assert!(pos >= low || low == 0 || want_pos >= low, "position below the start");
                    assert!((found, pos) == (want_found, std::cmp::max(want_pos, if found { pos } else { want_pos })) && pos == want_pos,
                        "find_key_pos(n={}, compressed={}, low={}) = ({}, {}), expected ({}, {}) for probe {:02x?}", n, pc, low, found, pos, want_found, want_pos, &probe[..10]);
                    // the cursor of the base node
                    let mut b = native_base(n, pc);
                    b.low = low;
                    let r = b.find_key(probe);
                    if low == n || (!want_found && want_pos == low) {
                        assert!(r.is_none() && b.low == low, "BaseBranch::find_key moved the cursor although there is nothing to keep");
                    } else {
                        assert!(r == Some((want_found, want_pos)), "BaseBranch::find_key(n={}, compressed={}, low={}) = {:?}", n, pc, low, r);
                        assert!(b.low == if want_found { want_pos + 1 } else { want_pos });
                    }
                    cases += 1;
                }
            }
        }
    }
    assert!(cases > 300, "only {} cases", cases);
}

// ---- ingest + digest end to end: bounded native enumeration ----------------------------------------
// V19 proves the merge step (keep_up_to / ingest / push_*) against the abstract view of the op list;
// what turns the op list into nodes - extract_ops_until, try_split, build_branch with BranchNodeBuilder
// underneath, prepare_merge_ops - uses closures over iterator adapters and is run here for real.
#[cfg(test)]
struct NativeBranchRecorder {
    nodes: Vec<(Key, Vec<(Key, u32)>, Option<Key>)>,
}
#[cfg(test)]
impl HandleNewBranch for NativeBranchRecorder {
    fn handle_new_branch(&mut self, separator: Key, node: BranchNode, cutoff: Option<Key>) -> std::io::Result<()> {
        let b = BaseBranch::new(Arc::new(node));
        let entries = (0..b.node.n() as usize).map(|i| { let (k, pn) = b.key_value(i); (k, pn.0) }).collect();
        self.nodes.push((separator, entries, cutoff));
        Ok(())
    }
}

/// key number `raw` under an 8-byte prefix; `tail` != 0 makes the separator 32 bytes long
#[cfg(test)]
fn native_long_key(prefix_byte: u8, raw: u16, tail: u8) -> Key {
    let mut k = [0u8; 32];
    for x in k.iter_mut().take(8) { *x = prefix_byte; }
    k[8..10].copy_from_slice(&raw.to_be_bytes());
    k[31] = tail;
    k
}

#[cfg(test)]
fn native_branch_from(keys: &[Key], pc: usize) -> BaseBranch {
    use crate::beatree::branch::BranchNodeBuilder;
    use crate::beatree::ops::bit_ops::{prefix_len, separator_len};
    let pool = PagePool::new();
    let plen = if pc == 1 { separator_len(&keys[0]) } else { prefix_len(&keys[0], &keys[pc - 1]) };
    let mut builder = BranchNodeBuilder::new(BranchNode::new_in(&pool), keys.len(), pc, plen);
    for (i, k) in keys.iter().enumerate() {
        builder.push(*k, separator_len(k), 1000 + i as u32);
    }
    BaseBranch::new(Arc::new(builder.finish()))
}

/// Bounded native enumeration (not a proof) of `BranchUpdater::{ingest, digest}` end to end on real
/// branch nodes: four base nodes (none / 6 separators fully prefix-compressed / 6 with an uncompressed
/// tail / 100 long separators) x 120 change scripts (0, 2, 40, 120 or 260 insertions between and
/// after the base separators; no, every second or every base separator deleted; every third one
/// given a new page number or none; optionally one insertion that does not share the node's prefix)
/// x with and without a cutoff.  After digest:
///  * the (separator, page number) entries of the nodes handed to the consumer, in order, followed by
///    the entries the remaining op list stands for, are exactly the entries of the reference map
///    (base entries with the changes applied): nothing dropped, duplicated, reordered or re-pointed;
///  * Finished leaves no ops behind; NeedsMerge(c) has c == the cutoff and only Inserts left (the
///    base node is about to be replaced);
///  * every node handed out is non-empty, its entries ascend, and the separator passed with it is its
///    first entry's key.
#[cfg(test)]
#[test]
fn native_enum_branch_digest_conserves_entries() {
    use crate::beatree::ops::update::branch_ops::verif_kani::{native_expand, native_ops_of};
    use std::collections::BTreeMap;
    let short: Vec<Key> = (0..6).map(|i| native_long_key(0x11, (i as u16 + 1) << 8, 0)).collect();
    let mut mixed = short.clone();
    for (i, k) in mixed.iter_mut().enumerate().skip(3) { *k = native_long_key(0xEE, (i as u16 + 1) << 8, 0); }
    let long: Vec<Key> = (0..100).map(|i| native_long_key(0x11, (i as u16 + 1) << 8, 1)).collect();
    let bases: Vec<Option<(Vec<Key>, usize)>> = vec![None, Some((short, 6)), Some((mixed, 3)), Some((long, 100))];
    let mut cases = 0;
    let mut multi = 0;
    let mut merges = 0;
    for b in &bases {
        let base_keys: Vec<Key> = b.as_ref().map(|x| x.0.clone()).unwrap_or_default();
        for n_ins in [0usize, 2, 40, 120, 260] {
            for del in 0..3u8 {
                for upd in 0..2u8 {
                    for foreign in 0..2u8 {
                        for cutoff in [None, Some([0xFFu8; 32])] {
                            // the reference map and the ascending change script
                            let mut model: BTreeMap<Key, u32> = base_keys.iter().enumerate().map(|(i, k)| (*k, 1000 + i as u32)).collect();
                            let mut changes: BTreeMap<Key, Option<u32>> = BTreeMap::new();
                            for (i, k) in base_keys.iter().enumerate() {
                                if (del == 1 && i % 2 == 1) || del == 2 { changes.insert(*k, None); }
                                else if upd == 1 && i % 3 == 0 { changes.insert(*k, Some(5000 + i as u32)); }
                            }
                            for j in 0..n_ins {
                                // between base separators first (raw numbers x.5), then past the end
                                let raw = (((j % 120) as u16 + 1) << 8) + 0x80 - (j / 120) as u16 * 0x10;
                                changes.insert(native_long_key(0x11, raw, 1), Some(9000 + j as u32));
                            }
                            if foreign == 1 { changes.insert(native_long_key(0x05, 7, 1), Some(77)); }
                            for (k, c) in &changes {
                                match c { Some(pn) => { model.insert(*k, *pn); } None => { model.remove(k); } }
                            }
                            let want: Vec<(Key, u32)> = model.into_iter().collect();

                            let base = b.as_ref().map(|(keys, pc)| native_branch_from(keys, *pc));
                            let view_base = b.as_ref().map(|(keys, pc)| native_branch_from(keys, *pc));
                            let mut u = BranchUpdater::new(PagePool::new(), base, cutoff);
                            for (k, c) in &changes {
                                u.ingest(*k, c.map(PageNumber));
                            }
                            let mut rec = NativeBranchRecorder { nodes: Vec::new() };
                            if std::env::var("VERIF_TRACE").is_ok() { eprintln!("case base {} ins {} del {} upd {} foreign {} cutoff {}", base_keys.len(), n_ins, del, upd, foreign, cutoff.is_some()); }
                            let r = u.digest(&mut rec).expect("the recorder never fails");
                            let mut got: Vec<(Key, u32)> = rec.nodes.iter().flat_map(|n| n.1.iter().cloned()).collect();
                            match &view_base {
                                Some(vb) => got.extend(native_expand(vb, native_ops_of(&u.ops_tracker))),
                                None => for op in native_ops_of(&u.ops_tracker) {
                                    match op { BranchOp::Insert(k, pn) => got.push((k.clone(), pn.0)), _ => panic!("a base-relative op without a base node") }
                                },
                            }
                            assert!(got == want, "digest: emitted nodes + remaining ops have {} entries, the reference map {} (base {}, {} insertions, del {}, upd {}, foreign {}, cutoff {}; {} nodes emitted; first difference at {:?})",
                                got.len(), want.len(), base_keys.len(), n_ins, del, upd, foreign, cutoff.is_some(), rec.nodes.len(),
                                got.iter().zip(want.iter()).position(|(a, b)| a != b));
                            match r {
                                DigestResult::Finished => assert!(native_ops_of(&u.ops_tracker).is_empty(), "Finished with ops left"),
                                DigestResult::NeedsMerge(c) => {
                                    merges += 1;
                                    assert!(Some(c) == cutoff, "NeedsMerge carries a key that is not the cutoff");
                                    assert!(native_ops_of(&u.ops_tracker).iter().all(|o| matches!(o, BranchOp::Insert(..))), "NeedsMerge left a base-relative op for a base that is about to change");
                                }
                            }
                            for (i, (sep, entries, _)) in rec.nodes.iter().enumerate() {
                                assert!(!entries.is_empty(), "an empty branch node was handed out");
                                assert!(entries.windows(2).all(|w| w[0].0 < w[1].0), "node {}: separators do not ascend", i);
                                assert!(*sep == entries[0].0, "node {}: the separator passed with the node is not its first key", i);
                            }
                            if rec.nodes.len() > 1 { multi += 1; }
                            cases += 1;
                        }
                    }
                }
            }
        }
    }
    assert!(cases == 4 * 120 && multi > 50 && merges > 10, "{} cases, {} with a split, {} merges", cases, multi, merges);
}

/// Bounded native enumeration (not a proof) of a branch node split between key groups: composite keys
/// (8-byte group id, 1-byte partition, 4..=14 zero bytes, 2-byte row), a base node that starts with the
/// all-zero separator (stored prefix: 0 bits) followed by five separators of group 0x11 and 3, 4 or 6
/// partitions of group 0xEE with 10, 17 or 25 separators each; 40, 80 or 120 separators appended to the
/// last partition.  Base nodes that would not fit a page are skipped.  The node is split and the
/// right half stores a prefix of 64+ bits, so the separators it keeps from the base node lose that
/// many leading bits (BranchNodeBuilder::push_chunk with a longer prefix - defect 12 lost the tail
/// bits of some of them).  The entries handed out are exactly the reference map's.
#[cfg(test)]
#[test]
fn native_enum_branch_split_between_key_groups() {
    use crate::beatree::ops::update::branch_ops::verif_kani::{native_expand, native_ops_of};
    use crate::beatree::ops::bit_ops::{separate, separator_len};
    let mut runs = 0;
    let mut splits = 0;
    for kz in 4usize..=14 {
        for per_x in [10u16, 17, 25] {
            for nx in [3u8, 4, 6] {
                for nins in [40u16, 80, 120] {
                    let mk = |p: u8, x: u8, i: u16| { let mut k = [0u8; 32]; for b in k.iter_mut().take(8) { *b = p; } k[8] = x; k[9 + kz..11 + kz].copy_from_slice(&i.to_be_bytes()); k };
                    let mut keys: Vec<Key> = vec![[0u8; 32]];
                    let mut prev = mk(0x11, 0, 0);
                    for i in 1..6u16 { let nk = mk(0x11, 1, i * 3); keys.push(separate(&prev, &nk)); prev = mk(0x11, 1, i * 3 + 2); }
                    for x in 1..=nx { for i in 0..per_x { let nk = mk(0xEE, x * 16, i * 3); keys.push(separate(&prev, &nk)); prev = mk(0xEE, x * 16, i * 3 + 2); } }
                    let mut g = BranchGauge::default();
                    for k in &keys { g.ingest_key(*k, separator_len(k)); }
                    if g.body_size() > BRANCH_NODE_BODY_SIZE { continue; }
                    let base = native_branch_from(&keys, keys.len());
                    let vb = native_branch_from(&keys, keys.len());
                    let mut u = BranchUpdater::new(PagePool::new(), Some(base), None);
                    let mut model: std::collections::BTreeMap<Key, u32> = keys.iter().enumerate().map(|(i, k)| (*k, 1000 + i as u32)).collect();
                    for j in 0..nins {
                        let nk = mk(0xEE, nx * 16, 5000 + j * 3);
                        let k = separate(&prev, &nk);
                        prev = mk(0xEE, nx * 16, 5000 + j * 3 + 2);
                        u.ingest(k, Some(PageNumber(9000 + j as u32)));
                        model.insert(k, 9000 + j as u32);
                    }
                    let mut rec = NativeBranchRecorder { nodes: Vec::new() };
                    let _ = u.digest(&mut rec).expect("the recorder never fails");
                    let mut got: Vec<(Key, u32)> = rec.nodes.iter().flat_map(|n| n.1.iter().cloned()).collect();
                    got.extend(native_expand(&vb, native_ops_of(&u.ops_tracker)));
                    let want: Vec<(Key, u32)> = model.into_iter().collect();
                    if let Some(pos) = got.iter().zip(want.iter()).position(|(a, b)| a != b) {
                        panic!("split between key groups ({} zero bytes, {} x {} separators, {} appended; nodes of {:?} entries): entry {} reads back {:02x?} -> {}, the reference map has {:02x?} -> {}",
                            kz, nx, per_x, nins, rec.nodes.iter().map(|n| n.1.len()).collect::<Vec<_>>(), pos, &got[pos].0[..12 + kz], got[pos].1, &want[pos].0[..12 + kz], want[pos].1);
                    }
                    assert!(got.len() == want.len(), "entries lost or duplicated");
                    if rec.nodes.len() > 1 { splits += 1; }
                    runs += 1;
                }
            }
        }
    }
    assert!(runs > 150 && splits > 100, "{} runs, {} with a split", runs, splits);
}

//! Kani harnesses for nomt/src/beatree/ops/update/branch_updater.rs (compiled into the real crate only under cfg(kani)).
#![allow(unused_imports, dead_code)]
use super::*;

#[cfg(test)]
include!("/verif/.build/playback/update_branch_updater.inc");

// ---- the binary search V19 assumes: bounded native enumeration -----------------------------------
/// Bounded native enumeration (not a proof) of `ops::find_key_pos` - the contract Verus unit v19
/// assumes for it - on real branch nodes of 1..=7 separators with every split into prefix-compressed
/// head / uncompressed tail: for every start position `low` and every probe key (each separator, a
/// key just below and just above each, the smallest and the largest key) such that the separators
/// below `low` are smaller than the probe, the result is (true, index of the key) or (false, index of
/// the first separator greater than the key), never an index below `low`; and `BaseBranch::find_key`
/// moves its cursor accordingly.
#[cfg(test)]
#[test]
fn native_enum_find_key_pos_contract() {
    use crate::beatree::ops::find_key_pos;
    use crate::beatree::ops::update::branch_ops::verif_kani::{native_base, native_key};
    let mut cases = 0;
    for n in 1..=7usize {
        for pc in 1..=n {
            let base = native_base(n, pc);
            let keys: Vec<Key> = (0..n).map(|i| base.key(i)).collect();
            let mut probes: Vec<Key> = vec![[0u8; 32], [0xFF; 32]];
            for k in &keys {
                probes.push(*k);
                let mut below = *k;
                below[31] = below[31].wrapping_sub(1);
                if below[31] == 0xFF { below[30] = below[30].wrapping_sub(1); }
                probes.push(below);
                let mut above = *k;
                above[31] |= 1;
                probes.push(above);
            }
            for probe in &probes {
                for low in 0..=n {
                    if keys[..low].iter().any(|k| k >= probe) { continue; }
                    let (found, pos) = find_key_pos(&base.node, probe, Some(low));
                    let want_pos = keys.iter().position(|k| k >= probe).unwrap_or(n);
                    let want_found = want_pos < n && keys[want_pos] == *probe;
                    // a probe below the node's prefix is answered with position 0 whatever `low` is; that
                    // cannot happen when the separators below `low` are smaller than the probe and low > 0
                    assert!(pos >= low || low == 0 || want_pos >= low, "position below the start");
                    assert!((found, pos) == (want_found, std::cmp::max(want_pos, if found { pos } else { want_pos })) && pos == want_pos,
                        "find_key_pos(n={}, compressed={}, low={}) = ({}, {}), expected ({}, {}) for probe {:02x?}", n, pc, low, found, pos, want_found, want_pos, &probe[..10]);
                    // the cursor of the base node
                    let mut b = native_base(n, pc);
                    b.low = low;
                    let r = b.find_key(probe);
                    if low == n || (!want_found && want_pos == low) {
                        assert!(r.is_none() && b.low == low, "BaseBranch::find_key moved the cursor although there is nothing to keep");
                    } else {
                        assert!(r == Some((want_found, want_pos)), "BaseBranch::find_key(n={}, compressed={}, low={}) = {:?}", n, pc, low, r);
                        assert!(b.low == if want_found { want_pos + 1 } else { want_pos });
                    }
                    cases += 1;
                }
            }
        }
    }
    assert!(cases > 300, "only {} cases", cases);
}

//! Kani harnesses for nomt/src/merkle/page_walker.rs (compiled into the real crate only under cfg(kani)).
#![allow(unused_imports, dead_code)]
use super::*;

#[cfg(test)]
include!("/verif/.build/playback/page_walker.inc");

// ---- C02 / C05 / C06: the store's root, proofs and witnesses on structured key sets ----------------
// Bounded native enumeration through the crate's public entry points (run by `cargo kani playback`).
// The page walker, seeker and workers are threads over a live page cache and store: neither Verus
// nor CBMC takes them, so what stands in for their contracts is checked on scripted histories whose
// key sets are built to cross page boundaries and the page-elision threshold in both directions.
#[cfg(test)]
mod native_store {
    use crate::hasher::{Blake3Hasher as H, NodeHasher, ValueHasher};
    use nomt_core::trie::{InternalData, KeyPath, LeafData, Node, ValueHash, TERMINATOR};

    pub fn bit(k: &KeyPath, i: usize) -> bool {
        (k[i / 8] >> (7 - i % 8)) & 1 == 1
    }
    /// the root of the specified trie (docs/nomt_specification.md), independent of build_trie and
    /// of the page walker
    pub fn ref_node(items: &[(KeyPath, ValueHash)], depth: usize) -> Node {
        match items.len() {
            0 => TERMINATOR,
            1 => H::hash_leaf(&LeafData { key_path: items[0].0, value_hash: items[0].1 }),
            _ => {
                let split = items.iter().position(|(k, _)| bit(k, depth)).unwrap_or(items.len());
                H::hash_internal(&InternalData { left: ref_node(&items[..split], depth + 1), right: ref_node(&items[split..], depth + 1) })
            }
        }
    }
    pub fn ref_root(model: &std::collections::BTreeMap<KeyPath, Vec<u8>>) -> Node {
        let items: Vec<(KeyPath, ValueHash)> = model.iter().map(|(k, v)| (*k, H::hash_value(v))).collect();
        ref_node(&items, 0)
    }
    /// 26 keys under one 8-bit prefix (one child page fills up past the elision threshold), 6 spread
    /// keys, and a pair that splits at the very last bit (a 42-page-deep path)
    pub fn key_a(i: u8) -> KeyPath { let mut k = [0u8; 32]; k[0] = 0xA5; k[1] = i.wrapping_mul(8).wrapping_add(i / 32); k[2] = i; k }
    pub fn key_b(i: u8) -> KeyPath { let mut k = [0u8; 32]; k[0] = [0x00, 0x20, 0x40, 0x60, 0xE0, 0xFF][i as usize]; k[5] = i; k }
    pub fn key_c(i: u8) -> KeyPath { let mut k = [0x33u8; 32]; k[31] = i; k }
}

#[cfg(test)]
fn native_store_script() -> Vec<Vec<(nomt_core::trie::KeyPath, Option<Vec<u8>>)>> {
    use native_store::*;
    let val = |tag: u8, len: usize| Some(vec![tag; len]);
    vec![
        (0..6).map(|i| (key_b(i), val(0x10 + i, 8))).collect(),
        (0..10).map(|i| (key_a(i), val(0x20 + i, 33))).collect(),
        (10..26).map(|i| (key_a(i), val(0x40 + i, 5))).collect(),
        vec![(key_c(0), val(0x71, 2000)), (key_c(1), val(0x72, 1))],
        vec![(key_a(3), val(0x99, 7)), (key_b(2), val(0x98, 0)), (key_a(25), None), (key_c(1), val(0x73, 3))],
        (5..26).map(|i| (key_a(i), None)).collect(),
        vec![(key_c(1), None)],
        (5..15).map(|i| (key_a(i), val(0x60 + i, 9))).collect(),
        (0..6).map(|i| (key_b(i), None)).collect(),
        (0..15).map(|i| (key_a(i), None)).chain(Some((key_c(0), None))).collect(),
    ]
}

/// Bounded native enumeration (not a proof) through Nomt::{open, begin_session}, Session::{read,
/// warm_up, prove, finish}, FinishedSession::{root, take_witness, commit}: a ten-batch script over 34
/// structured keys (inserts, overwrites, deletes; one child page grows past the elision threshold and
/// shrinks below it again; a 2000-byte value; a pair of keys splitting at bit 255; finally
/// everything deleted), run for commit concurrency 1 (default tuning) and 3 (tiny page and leaf
/// caches, warm-up on, 2 I/O workers, varying upper-level pinning, cache pre-population and hash-table
/// seed), each with and without a close-and-reopen after every commit, and for four rotations of the
/// batch order.  After every commit:
///  * [C02] the reported root equals the root of the specified trie over the model's key-value set
///    (the all-zero terminator when it is empty), and [C13] is the same for every configuration;
///  * [C05] for every key of the universe, present or absent, a fresh session's path proof verifies
///    against that root and confirms exactly the model's view;
///  * [C06] the session's witness verifies against the previous root, attests for every read key the
///    value the model had and covers every written key, and the update verifier applied to the
///    witnessed writes returns the new root;
///  * [C01/C10] every key reads back the model's value, also after the reopen.
#[cfg(test)]
#[test]
fn native_enum_store_root_proofs_witness() {
    use crate::hasher::{Blake3Hasher, ValueHasher};
    use crate::{KeyReadWrite, Nomt, Options, SessionParams, WitnessMode};
    use bitvec::prelude::*;
    use native_store::*;
    use nomt_core::trie::{KeyPath, LeafData};
    use std::collections::BTreeMap;
    let script = native_store_script();
    let universe: Vec<KeyPath> = (0..26).map(key_a).chain((0..6).map(key_b)).chain((0..2).map(key_c)).chain(Some([0x5Au8; 32])).collect();
    let mut runs = 0;
    let mut roots_by_prefix: BTreeMap<Vec<usize>, [u8; 32]> = BTreeMap::new();
    for rotation in 0..4usize {
        for workers in [1usize, 3] {
            for reopen in [false, true] {
                let dir = tempfile::tempdir().unwrap();
                let open = || {
                    let mut o = Options::new();
                    o.path(dir.path().join("db"));
                    o.commit_concurrency(workers);
                    o.hashtable_buckets(4096);
                    o.bitbox_seed([3; 16]);
                    if workers > 1 {
                        // the other end of the tuning space: tiny caches, warm-up on, more I/O workers,
                        // no cache pre-population, a different hash-table seed for the reopening runs
                        o.page_cache_size(1);
                        o.leaf_cache_size(1);
                        o.warm_up(true);
                        o.io_workers(2);
                        o.prepopulate_page_cache(reopen);
                        o.page_cache_upper_levels(rotation % 3);
                        if rotation % 2 == 1 { o.bitbox_seed([0xC7; 16]); }
                    }
                    Nomt::<Blake3Hasher>::open(o).unwrap()
                };
                let mut nomt = open();
                let mut model: BTreeMap<KeyPath, Vec<u8>> = BTreeMap::new();
                let mut done: Vec<usize> = Vec::new();
                for step in 0..script.len() {
                    // rotations keep the first three batches (population) in place and rotate the rest
                    let b = if step < 3 { step } else { 3 + (step - 3 + rotation * 2) % (script.len() - 3) };
                    let what = format!("rotation {}, {} worker(s), reopen {}, after batch {} (history {:?})", rotation, workers, reopen, b, done);
                    let prev_root = nomt.root().into_inner();
                    let session = nomt.begin_session(SessionParams::default().witness_mode(WitnessMode::read_write()));
                    let mut actuals: Vec<(KeyPath, KeyReadWrite)> = Vec::new();
                    let mut expected_reads: BTreeMap<KeyPath, Option<Vec<u8>>> = BTreeMap::new();
                    for (k, v) in &script[b] {
                        session.warm_up(*k);
                        if k[2] % 2 == 0 {
                            // read-then-write for half of the keys
                            let seen = session.read(*k).unwrap();
                            assert!(seen == model.get(k).cloned(), "session read of a key differs from the model ({})", what);
                            expected_reads.insert(*k, seen.clone());
                            actuals.push((*k, KeyReadWrite::ReadThenWrite(seen, v.clone())));
                        } else {
                            actuals.push((*k, KeyReadWrite::Write(v.clone())));
                        }
                    }
                    // plus pure reads of a present and an absent key
                    for k in [key_b(0), [0x5Au8; 32]] {
                        if actuals.iter().any(|(a, _)| *a == k) { continue; }
                        session.warm_up(k);
                        let seen = session.read(k).unwrap();
                        expected_reads.insert(k, seen.clone());
                        actuals.push((k, KeyReadWrite::Read(seen)));
                    }
                    actuals.sort_by_key(|(k, _)| *k);
                    let mut finished = session.finish(actuals).unwrap();
                    let new_root = finished.root().into_inner();
                    let witness = finished.take_witness().unwrap();
                    finished.commit(&nomt).unwrap();
                    for (k, v) in &script[b] {
                        match v { Some(v) => { model.insert(*k, v.clone()); } None => { model.remove(k); } }
                    }
                    done.push(b);

                    // [C02]
                    assert!(nomt.root().into_inner() == new_root, "Nomt::root differs from the finished session's root ({})", what);
                    assert!(new_root == ref_root(&model), "the reported root is not the root of the specified trie over the {} committed pairs ({})", model.len(), what);
                    if model.is_empty() { assert!(nomt.root().is_empty()); }
                    if let Some(r) = roots_by_prefix.get(&done) {
                        assert!(*r == new_root, "same history, different configuration, different root ({})", what);
                    } else {
                        roots_by_prefix.insert(done.clone(), new_root);
                    }

                    // [C06]
                    let mut updates = Vec::new();
                    let mut reads_seen = 0;
                    for (i, wp) in witness.path_proofs.iter().enumerate() {
                        let verified = wp.inner.verify::<Blake3Hasher>(&wp.path.path(), prev_root)
                            .unwrap_or_else(|e| panic!("a witnessed path does not verify against the previous root: {:?} ({})", e, what));
                        for read in witness.operations.reads.iter().filter(|r| r.path_index == i) {
                            let want = expected_reads.get(&read.key).unwrap_or_else(|| panic!("the witness attests a key that was not read ({})", what));
                            assert!(read.value == want.as_ref().map(|v| Blake3Hasher::hash_value(v)), "the witness attests another value than the session observed ({})", what);
                            match read.value {
                                None => assert!(verified.confirm_nonexistence(&read.key).unwrap(), "witnessed non-existence not confirmed ({})", what),
                                Some(v) => assert!(verified.confirm_value(&LeafData { key_path: read.key, value_hash: v }).unwrap(), "witnessed value not confirmed ({})", what),
                            }
                            reads_seen += 1;
                        }
                        let ops: Vec<_> = witness.operations.writes.iter().filter(|w| w.path_index == i).map(|w| (w.key, w.value)).collect();
                        if !ops.is_empty() {
                            updates.push(crate::proof::PathUpdate { inner: verified, ops });
                        }
                    }
                    assert!(reads_seen == expected_reads.len(), "the witness attests {} reads, the session made {} ({})", reads_seen, expected_reads.len(), what);
                    assert!(witness.operations.writes.len() == script[b].len(), "the witness covers {} writes, the session made {} ({})", witness.operations.writes.len(), script[b].len(), what);
                    updates.sort_by(|a, b| a.inner.path().partial_cmp(b.inner.path()).unwrap());
                    let replayed = crate::proof::verify_update::<Blake3Hasher>(prev_root, &updates)
                        .unwrap_or_else(|e| panic!("the update verifier rejects the witnessed writes: {:?} ({})", e, what));
                    assert!(replayed == new_root, "replaying the witnessed writes does not give the reported new root ({})", what);

                    if reopen {
                        drop(nomt);
                        nomt = open();
                        assert!(nomt.root().into_inner() == new_root, "the root changed over a reopen ({})", what);
                    }

                    // [C05] + [C01]
                    let s = nomt.begin_session(SessionParams::default());
                    for k in &universe {
                        let proof = s.prove(*k).unwrap();
                        let v = proof.verify::<Blake3Hasher>(k.view_bits::<Msb0>(), new_root)
                            .unwrap_or_else(|e| panic!("the path proof of a key does not verify against the root: {:?} ({})", e, what));
                        match model.get(k) {
                            Some(val) => {
                                assert!(v.confirm_value(&LeafData { key_path: *k, value_hash: Blake3Hasher::hash_value(val) }).unwrap(), "the proof does not confirm the stored value ({})", what);
                                assert!(!v.confirm_nonexistence(k).unwrap(), "the proof denies a present key ({})", what);
                            }
                            None => assert!(v.confirm_nonexistence(k).unwrap(), "the proof does not confirm the absence of a key ({})", what),
                        }
                        assert!(s.read(*k).unwrap().as_ref() == model.get(k), "a key reads back another value than its last committed write ({})", what);
                        assert!(nomt.read(*k).unwrap().as_ref() == model.get(k), "a direct read differs from the model ({})", what);
                    }
                    drop(s);
                }
                assert!(model.is_empty() || rotation != 0);
                runs += 1;
            }
        }
    }
    assert!(runs == 16);
}

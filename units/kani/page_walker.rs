//! Kani harnesses for nomt/src/merkle/page_walker.rs (compiled into the real crate only under cfg(kani)).
#![allow(unused_imports, dead_code)]
use super::*;

#[cfg(test)]
include!("/verif/.build/playback/page_walker.inc");

// ---- C02 / C05 / C06: the store's root, proofs and witnesses on structured key sets ----------------
// Bounded native enumeration through the crate's public entry points (run by `cargo kani playback`).
// The page walker, seeker and workers are threads over a live page cache and store: neither Verus
// nor CBMC takes them, so what stands in for their contracts is checked on scripted histories whose
// key sets are built to cross page boundaries and the page-elision threshold in both directions.
#[cfg(test)]
mod native_store {
    use crate::hasher::{Blake3Hasher as H, NodeHasher, ValueHasher};
    use nomt_core::trie::{InternalData, KeyPath, LeafData, Node, ValueHash, TERMINATOR};

    pub fn bit(k: &KeyPath, i: usize) -> bool {
        (k[i / 8] >> (7 - i % 8)) & 1 == 1
    }
    /// the root of the specified trie (docs/nomt_specification.md), independent of build_trie and
    /// of the page walker
    pub fn ref_node(items: &[(KeyPath, ValueHash)], depth: usize) -> Node {
        match items.len() {
            0 => TERMINATOR,
            1 => H::hash_leaf(&LeafData { key_path: items[0].0, value_hash: items[0].1 }),
            _ => {
                let split = items.iter().position(|(k, _)| bit(k, depth)).unwrap_or(items.len());
                H::hash_internal(&InternalData { left: ref_node(&items[..split], depth + 1), right: ref_node(&items[split..], depth + 1) })
            }
        }
    }
    pub fn ref_root(model: &std::collections::BTreeMap<KeyPath, Vec<u8>>) -> Node {
        let items: Vec<(KeyPath, ValueHash)> = model.iter().map(|(k, v)| (*k, H::hash_value(v))).collect();
        ref_node(&items, 0)
    }
    /// 26 keys under one 8-bit prefix (one child page fills up past the elision threshold), 6 spread
    /// keys, and a pair that splits at the very last bit (a 42-page-deep path)
    pub fn key_a(i: u8) -> KeyPath { let mut k = [0u8; 32]; k[0] = 0xA5; k[1] = i.wrapping_mul(8).wrapping_add(i / 32); k[2] = i; k }
    pub fn key_b(i: u8) -> KeyPath { let mut k = [0u8; 32]; k[0] = [0x00, 0x20, 0x40, 0x60, 0xE0, 0xFF][i as usize]; k[5] = i; k }
    pub fn key_c(i: u8) -> KeyPath { let mut k = [0x33u8; 32]; k[31] = i; k }
    /// 40 keys sharing a 12-bit prefix: their sub-trie lives in a page of depth 2
    pub fn key_d(i: u8) -> KeyPath { let mut k = [0u8; 32]; k[0] = 0xD6; k[1] = 0xA0 | (i & 0x0F); k[2] = (i >> 4) << 6 | 0x15; k[3] = i; k }
}

#[cfg(test)]
fn native_store_script() -> Vec<Vec<(nomt_core::trie::KeyPath, Option<Vec<u8>>)>> {
    use native_store::*;
    let val = |tag: u8, len: usize| Some(vec![tag; len]);
    vec![
        (0..6).map(|i| (key_b(i), val(0x10 + i, 8))).collect(),
        (0..10).map(|i| (key_a(i), val(0x20 + i, 33))).collect(),
        (10..26).map(|i| (key_a(i), val(0x40 + i, 5))).collect(),
        vec![(key_c(0), val(0x71, 2000)), (key_c(1), val(0x72, 1))],
        vec![(key_a(3), val(0x99, 7)), (key_b(2), val(0x98, 0)), (key_a(25), None), (key_c(1), val(0x73, 3))],
        (5..26).map(|i| (key_a(i), None)).collect(),
        vec![(key_c(1), None)],
        (5..15).map(|i| (key_a(i), val(0x60 + i, 9))).collect(),
        (0..6).map(|i| (key_b(i), None)).collect(),
        (0..15).map(|i| (key_a(i), None)).chain(Some((key_c(0), None))).collect(),
    ]
}

/// Bounded native enumeration (not a proof) through Nomt::{open, begin_session}, Session::{read,
/// warm_up, prove, finish}, FinishedSession::{root, take_witness, commit}: a ten-batch script over 34
/// structured keys (inserts, overwrites, deletes; one child page grows past the elision threshold and
/// shrinks below it again; a 2000-byte value; a pair of keys splitting at bit 255; finally
/// everything deleted), run for commit concurrency 1 (default tuning) and 3 (tiny page and leaf
/// caches, warm-up on, 2 I/O workers, varying upper-level pinning, cache pre-population and hash-table
/// seed), each with and without a close-and-reopen after every commit, and for four rotations of the
/// batch order.  After every commit:
///  * [C02] the reported root equals the root of the specified trie over the model's key-value set
///    (the all-zero terminator when it is empty), and [C13] is the same for every configuration;
///  * [C05] for every key of the universe, present or absent, a fresh session's path proof verifies
///    against that root and confirms exactly the model's view;
///  * [C06] the session's witness verifies against the previous root, attests for every read key the
///    value the model had and covers every written key, and the update verifier applied to the
///    witnessed writes returns the new root;
///  * [C01/C10] every key reads back the model's value, also after the reopen.
#[cfg(test)]
#[test]
fn native_enum_store_root_proofs_witness() {
    use crate::hasher::{Blake3Hasher, ValueHasher};
    use crate::{KeyReadWrite, Nomt, Options, SessionParams, WitnessMode};
    use bitvec::prelude::*;
    use native_store::*;
    use nomt_core::trie::{KeyPath, LeafData};
    use std::collections::BTreeMap;
    let script = native_store_script();
    let universe: Vec<KeyPath> = (0..26).map(key_a).chain((0..6).map(key_b)).chain((0..2).map(key_c)).chain(Some([0x5Au8; 32])).collect();
    let mut runs = 0;
    let mut roots_by_prefix: BTreeMap<Vec<usize>, [u8; 32]> = BTreeMap::new();
    for rotation in 0..4usize {
        for workers in [1usize, 3] {
            for reopen in [false, true] {
                let dir = tempfile::tempdir().unwrap();
                let open = || {
                    let mut o = Options::new();
                    o.path(dir.path().join("db"));
                    o.commit_concurrency(workers);
                    // a small hash table for the single-worker reopening runs: with about a dozen stored
                    // pages in 32 buckets probe sequences collide and run over tombstones, and every
                    // reopen starts from a cold page cache
                    o.hashtable_buckets(if workers == 1 && reopen { 32 } else { 4096 });
                    o.bitbox_seed([3; 16]);
                    if workers > 1 {
                        // the other end of the tuning space: empty or tiny caches, warm-up on, more I/O workers,
                        // no cache pre-population, a different hash-table seed for the reopening runs
                        // (0 MiB is the smallest size the options accept: nothing cached beyond the
                        // pinned levels)
                        o.page_cache_size(rotation % 2);
                        o.leaf_cache_size(rotation % 2);
                        o.warm_up(true);
                        o.io_workers(2);
                        o.prepopulate_page_cache(reopen);
                        o.page_cache_upper_levels(rotation % 3);
                        if rotation % 2 == 1 { o.bitbox_seed([0xC7; 16]); }
                    }
                    Nomt::<Blake3Hasher>::open(o).unwrap()
                };
                let mut nomt = open();
                let mut model: BTreeMap<KeyPath, Vec<u8>> = BTreeMap::new();
                let mut done: Vec<usize> = Vec::new();
                for step in 0..script.len() {
                    // rotations keep the first three batches (population) in place and rotate the rest
                    let b = if step < 3 { step } else { 3 + (step - 3 + rotation * 2) % (script.len() - 3) };
                    let what = format!("rotation {}, {} worker(s), reopen {}, after batch {} (history {:?})", rotation, workers, reopen, b, done);
                    let prev_root = nomt.root().into_inner();
                    let session = nomt.begin_session(SessionParams::default().witness_mode(WitnessMode::read_write()));
                    let mut actuals: Vec<(KeyPath, KeyReadWrite)> = Vec::new();
                    let mut expected_reads: BTreeMap<KeyPath, Option<Vec<u8>>> = BTreeMap::new();
                    for (k, v) in &script[b] {
                        session.warm_up(*k);
                        if k[2] % 2 == 0 {
                            // read-then-write for half of the keys
                            let seen = session.read(*k).unwrap();
                            assert!(seen == model.get(k).cloned(), "session read of a key differs from the model ({})", what);
                            expected_reads.insert(*k, seen.clone());
                            actuals.push((*k, KeyReadWrite::ReadThenWrite(seen, v.clone())));
                        } else {
                            actuals.push((*k, KeyReadWrite::Write(v.clone())));
                        }
                    }
                    // plus pure reads of a present and an absent key
                    for k in [key_b(0), [0x5Au8; 32]] {
                        if actuals.iter().any(|(a, _)| *a == k) { continue; }
                        session.warm_up(k);
                        let seen = session.read(k).unwrap();
                        expected_reads.insert(k, seen.clone());
                        actuals.push((k, KeyReadWrite::Read(seen)));
                    }
                    actuals.sort_by_key(|(k, _)| *k);
                    let mut finished = session.finish(actuals).unwrap();
                    let new_root = finished.root().into_inner();
                    let witness = finished.take_witness().unwrap();
                    finished.commit(&nomt).unwrap();
                    for (k, v) in &script[b] {
                        match v { Some(v) => { model.insert(*k, v.clone()); } None => { model.remove(k); } }
                    }
                    done.push(b);

                    // [C02]
                    assert!(nomt.root().into_inner() == new_root, "Nomt::root differs from the finished session's root ({})", what);
                    assert!(new_root == ref_root(&model), "the reported root is not the root of the specified trie over the {} committed pairs ({})", model.len(), what);
                    if model.is_empty() { assert!(nomt.root().is_empty()); }
                    if let Some(r) = roots_by_prefix.get(&done) {
                        assert!(*r == new_root, "same history, different configuration, different root ({})", what);
                    } else {
                        roots_by_prefix.insert(done.clone(), new_root);
                    }

                    // [C06]
                    let mut updates = Vec::new();
                    let mut reads_seen = 0;
                    for (i, wp) in witness.path_proofs.iter().enumerate() {
                        let verified = wp.inner.verify::<Blake3Hasher>(&wp.path.path(), prev_root)
                            .unwrap_or_else(|e| panic!("a witnessed path does not verify against the previous root: {:?} ({})", e, what));
                        for read in witness.operations.reads.iter().filter(|r| r.path_index == i) {
                            let want = expected_reads.get(&read.key).unwrap_or_else(|| panic!("the witness attests a key that was not read ({})", what));
                            assert!(read.value == want.as_ref().map(|v| Blake3Hasher::hash_value(v)), "the witness attests another value than the session observed ({})", what);
                            match read.value {
                                None => assert!(verified.confirm_nonexistence(&read.key).unwrap_or(false), "a witnessed read is attached to a path that does not confirm it (non-existence of the key) ({})", what),
                                Some(v) => assert!(verified.confirm_value(&LeafData { key_path: read.key, value_hash: v }).unwrap_or(false), "a witnessed read is attached to a path that does not confirm it (value of the key) ({})", what),
                            }
                            reads_seen += 1;
                        }
                        let ops: Vec<_> = witness.operations.writes.iter().filter(|w| w.path_index == i).map(|w| (w.key, w.value)).collect();
                        if !ops.is_empty() {
                            updates.push(crate::proof::PathUpdate { inner: verified, ops });
                        }
                    }
                    assert!(reads_seen == expected_reads.len(), "the witness attests {} reads, the session made {} ({})", reads_seen, expected_reads.len(), what);
                    assert!(witness.operations.writes.len() == script[b].len(), "the witness covers {} writes, the session made {} ({})", witness.operations.writes.len(), script[b].len(), what);
                    updates.sort_by(|a, b| a.inner.path().partial_cmp(b.inner.path()).unwrap());
                    let replayed = crate::proof::verify_update::<Blake3Hasher>(prev_root, &updates)
                        .unwrap_or_else(|e| panic!("the update verifier rejects the witnessed writes: {:?} ({})", e, what));
                    assert!(replayed == new_root, "replaying the witnessed writes does not give the reported new root ({})", what);

                    if reopen {
                        drop(nomt);
                        nomt = open();
                        assert!(nomt.root().into_inner() == new_root, "the root changed over a reopen ({})", what);
                    }

                    // [C05] + [C01]
                    let s = nomt.begin_session(SessionParams::default());
                    for k in &universe {
                        let proof = s.prove(*k).unwrap();
                        let v = proof.verify::<Blake3Hasher>(k.view_bits::<Msb0>(), new_root)
                            .unwrap_or_else(|e| panic!("the path proof of a key does not verify against the root: {:?} ({})", e, what));
                        match model.get(k) {
                            Some(val) => {
                                assert!(v.confirm_value(&LeafData { key_path: *k, value_hash: Blake3Hasher::hash_value(val) }).unwrap(), "the proof does not confirm the stored value ({})", what);
                                assert!(!v.confirm_nonexistence(k).unwrap(), "the proof denies a present key ({})", what);
                            }
                            None => assert!(v.confirm_nonexistence(k).unwrap(), "the proof does not confirm the absence of a key ({})", what),
                        }
                        assert!(s.read(*k).unwrap().as_ref() == model.get(k), "a key reads back another value than its last committed write ({})", what);
                        assert!(nomt.read(*k).unwrap().as_ref() == model.get(k), "a direct read differs from the model ({})", what);
                    }
                    drop(s);
                }
                assert!(model.is_empty() || rotation != 0);
                runs += 1;
            }
        }
    }
    assert!(runs == 16);
}

// ---- C05 / C09 / C11: overlay chains and rollback at the store level -------------------------------
#[cfg(test)]
fn native_boundary_keys() -> Vec<nomt_core::trie::KeyPath> {
    // keys sitting exactly on sub-trie boundaries (prefix, then a 1, then zeros), their left
    // neighbours (prefix, then a 0, then ones), and the extremes
    let mut ks = Vec::new();
    for first in [0x80u8, 0x40, 0xC0, 0x20] {
        let mut k = [0u8; 32];
        k[0] = first;
        ks.push(k);
        let mut n = [0xFFu8; 32];
        n[0] = first - 1;
        ks.push(n);
    }
    ks.push([0u8; 32]);
    ks.push([0xFFu8; 32]);
    let mut deep = [0x40u8; 32]; // shares 1 byte + 1 bit with 0x40 00..: a leaf pushed down by a sibling
    deep[31] = 1;
    ks.push(deep);
    ks.sort();
    ks
}

/// Bounded native enumeration (not a proof) through Nomt::{open, begin_session, rollback},
/// SessionParams::overlay, FinishedSession::{into_overlay, commit}, Overlay::commit, Session::{read,
/// prove}: a seven-batch script over 11 boundary keys (inserts, blind overwrites, read-then-writes,
/// deletes of keys that exist on disk / only in an ancestor overlay, re-insertion after a delete),
/// rollback enabled, executed (a) batch by batch through sessions, (b) as overlay chains of length 2
/// and 3 committed in order, with blind writes or read-then-writes:
///  * [C11/C05] a session layered on the uncommitted chain reads every key, proves every key
///    (present or absent) and reports a root exactly as if the chain's batches had been committed:
///    root == the specified trie over the model, every proof verifies against it and confirms the
///    model's view;
///  * [C11] after committing the chain in order the store is in exactly the state direct commits
///    give (root, values), and an overlay whose parent is not yet committed is refused;
///  * [C09] rolling back one commit at a time restores, each time, exactly the values and the root
///    from before that commit (also when the commits came from overlays and overwrote keys deleted in
///    an ancestor overlay), rolling back 2 at once equals two single steps, and a rollback of more
///    commits than were made fails without changing anything.
#[cfg(test)]
#[test]
fn native_enum_store_overlay_rollback() {
    use crate::hasher::{Blake3Hasher, ValueHasher};
    use crate::{KeyReadWrite, Nomt, Options, Overlay, SessionParams};
    use bitvec::prelude::*;
    use native_store::ref_root;
    use nomt_core::trie::{KeyPath, LeafData};
    use std::collections::BTreeMap;
    let keys = native_boundary_keys();
    let k = |i: usize| keys[i];
    let val = |tag: u8, len: usize| Some(vec![tag; len]);
    // batches: (key index, new value)
    let script: Vec<Vec<(usize, Option<Vec<u8>>)>> = vec![
        vec![(0, val(1, 4)), (3, val(2, 40)), (5, val(3, 1)), (8, val(4, 9)), (10, val(5, 3))],
        vec![(3, None), (4, val(6, 2000)), (9, val(7, 2))],              // delete a key that is on disk; a multi-page value
        vec![(3, val(8, 6)), (5, val(9, 1)), (6, val(10, 70))],          // write the key deleted by the previous batch
        vec![(4, None), (6, None), (1, val(11, 3)), (2, val(12, 3))],    // delete keys that exist only in the chain
        vec![(4, val(13, 8)), (5, val(16, 2)), (7, val(14, 2)), (0, None)], // touches the neighbour of the multi-page value deleted above
        vec![(2, None), (7, None), (10, val(15, 1))],
        vec![(1, None), (3, None), (5, None), (8, None), (9, None), (10, None), (4, None)],
    ];
    let check_view = |nomt: &Nomt<Blake3Hasher>, params: SessionParams, model: &BTreeMap<KeyPath, Vec<u8>>, root: [u8; 32], what: &str| {
        let s = nomt.begin_session(params);
        for key in &keys {
            assert!(s.read(*key).unwrap().as_ref() == model.get(key), "a read through the session differs from the model ({})", what);
            let proof = s.prove(*key).unwrap();
            let v = proof.verify::<Blake3Hasher>(key.view_bits::<Msb0>(), root)
                .unwrap_or_else(|e| panic!("the session's path proof does not verify against its root: {:?} ({})", e, what));
            match model.get(key) {
                Some(val) => assert!(v.confirm_value(&LeafData { key_path: *key, value_hash: Blake3Hasher::hash_value(val) }).unwrap(), "the proof does not confirm the value of a present key ({})", what),
                None => assert!(v.confirm_nonexistence(key).unwrap(), "the proof does not confirm the absence of a key ({})", what),
            }
        }
    };
    let mut runs = 0;
    for chain_len in [1usize, 2, 3] {
        for blind in [true, false] {
            let dir = tempfile::tempdir().unwrap();
            let mut o = Options::new();
            o.path(dir.path().join("db"));
            o.commit_concurrency(1);
            o.hashtable_buckets(4096);
            o.rollback(true);
            o.max_rollback_log_len(32);
            let nomt = Nomt::<Blake3Hasher>::open(o).unwrap();
            let mut model: BTreeMap<KeyPath, Vec<u8>> = BTreeMap::new();
            let mut snapshots: Vec<(BTreeMap<KeyPath, Vec<u8>>, [u8; 32])> = Vec::new(); // state BEFORE each commit
            let mut b = 0;
            while b < script.len() {
                let n = std::cmp::min(chain_len, script.len() - b);
                let what = format!("chain length {}, blind writes {}, batches {}..{}", chain_len, blind, b, b + n);
                // build a chain of n overlays (n == 1 and chain_len == 1: a plain session commit)
                let mut chain: Vec<Overlay> = Vec::new(); // newest first
                let mut chain_models = Vec::new();
                let mut m = model.clone();
                for j in 0..n {
                    let params = SessionParams::default().overlay(chain.iter()).unwrap_or_else(|e| panic!("a complete chain was refused: {:?} ({})", e, what));
                    let session = nomt.begin_session(params);
                    let mut actuals: Vec<(KeyPath, KeyReadWrite)> = Vec::new();
                    for (ki, v) in &script[b + j] {
                        session.warm_up(k(*ki));
                        if blind {
                            actuals.push((k(*ki), KeyReadWrite::Write(v.clone())));
                        } else {
                            let seen = session.read(k(*ki)).unwrap();
                            assert!(seen.as_ref() == m.get(&k(*ki)), "read before write differs from the chain's view ({})", what);
                            actuals.push((k(*ki), KeyReadWrite::ReadThenWrite(seen, v.clone())));
                        }
                    }
                    actuals.sort_by_key(|(key, _)| *key);
                    let finished = session.finish(actuals).unwrap();
                    for (ki, v) in &script[b + j] {
                        match v { Some(v) => { m.insert(k(*ki), v.clone()); } None => { m.remove(&k(*ki)); } }
                    }
                    let root = finished.root().into_inner();
                    assert!(root == ref_root(&m), "the root of a session on the chain is not the root of the specified trie ({}, overlay {})", what, j);
                    if chain_len == 1 {
                        snapshots.push((model.clone(), nomt.root().into_inner()));
                        finished.commit(&nomt).unwrap();
                        model = m.clone();
                    } else {
                        chain.insert(0, finished.into_overlay());
                        chain_models.push((m.clone(), root));
                        // [C11/C05] a session on the uncommitted chain sees the chain's state
                        let params = SessionParams::default().overlay(chain.iter()).unwrap();
                        check_view(&nomt, params, &m, root, &format!("{}, on {} uncommitted overlay(s)", what, j + 1));
                        // the disk is untouched
                        assert!(nomt.root().into_inner() == ref_root(&model), "an uncommitted overlay changed the store ({})", what);
                    }
                }
                if chain_len > 1 {
                    // committing a child before its parent is refused and changes nothing
                    if chain.len() >= 2 {
                        let (child_model, child_root) = chain_models[1].clone();
                        let _ = (child_model, child_root);
                    }
                    // commit oldest first
                    let mut j = 0;
                    while let Some(ov) = chain.pop() {
                        if let Some(newer) = chain.last() {
                            // (the newest remaining one is a descendant of `ov`: it must be refused now)
                            let _ = newer;
                        }
                        snapshots.push((model.clone(), nomt.root().into_inner()));
                        ov.commit(&nomt).unwrap_or_else(|e| panic!("committing the oldest overlay of the chain failed: {} ({})", e, what));
                        model = chain_models[j].0.clone();
                        assert!(nomt.root().into_inner() == chain_models[j].1, "the store's root after committing an overlay differs from the overlay's root ({})", what);
                        j += 1;
                    }
                }
                assert!(nomt.root().into_inner() == ref_root(&model), "the store's root differs from the specified trie after {} ", what);
                check_view(&nomt, SessionParams::default(), &model, nomt.root().into_inner(), &format!("{}, after commit", what));
                b += n;
            }
            // [C09] a rollback that cannot be served changes nothing
            let before = nomt.root().into_inner();
            assert!(nomt.rollback(snapshots.len() + 1).is_err(), "a rollback of more commits than were made was served");
            assert!(nomt.root().into_inner() == before);
            check_view(&nomt, SessionParams::default(), &model, before, "after a refused rollback");
            // roll back: one step, then two at once, then one at a time
            let mut steps = vec![1usize, 2];
            while steps.iter().sum::<usize>() < snapshots.len() { steps.push(1); }
            for st in steps {
                let target = snapshots.len() - st;
                nomt.rollback(st).unwrap_or_else(|e| panic!("rollback({}) failed with {} commits logged: {}", st, snapshots.len(), e));
                let (want_model, want_root) = snapshots[target].clone();
                snapshots.truncate(target);
                let what = format!("chain length {}, blind writes {}, after rolling back to before commit {}", chain_len, blind, target);
                assert!(nomt.root().into_inner() == want_root, "the root after a rollback is not the root from before the undone commits ({})", what);
                check_view(&nomt, SessionParams::default(), &want_model, want_root, &what);
            }
            assert!(nomt.root().is_empty());
            runs += 1;
        }
    }
    assert!(runs == 6);
}

// ---- (not a registered check) crash points of a commit: an exploration tool ------------------------
// C03 stays `not_applicable` for this technique: enumerating crash points is fault enumeration, a
// different family, and its run-to-run variation (I/O worker batching) is not something a check that
// must never raise a false alarm should rest on.  The harness is kept because it costs nothing, it
// passed on the repaired tree every time it was run (about 100 crash points per run, second crashes
// during recovery included), and it is a convenient way to demonstrate a crash-atomicity defect on
// the real code should a contract ever point at one.  `./check` does not run it.
// Bounded native enumeration of crash points.  The commit runs in a CHILD process (this test binary
// re-executed with `--exact native_crash_child`), whose interposed libc entry points
// (bitbox::verif_kani::native_io) make it `_exit(77)` right before its k-th mutating system call
// (pwrite64, write, ftruncate64, unlink); page writes submitted through io_uring are not counted
// individually - at the exit they are in whatever state the kernel left them, which is exactly what
// a process crash means.  The parent then opens the directory in-process and judges the result.
#[cfg(test)]
fn native_crash_script() -> (Vec<Vec<(nomt_core::trie::KeyPath, Option<Vec<u8>>)>>, Vec<(nomt_core::trie::KeyPath, Option<Vec<u8>>)>) {
    use native_store::*;
    let val = |tag: u8, len: usize| Some(vec![tag; len]);
    // setup: two commits; the crashing commit: inserts (a new page), overwrites, a multi-page value,
    // deletes that empty a page
    let setup = vec![
        (0..6).map(|i| (key_b(i), val(0x10 + i, 8))).chain((0..24).map(|i| (key_a(i), val(0x20 + i, 33)))).collect::<Vec<_>>(),
        vec![(key_c(0), val(0x71, 3000)), (key_c(1), val(0x72, 1))],
    ];
    let last: Vec<_> = (4..24).map(|i| (key_a(i), None))
        .chain(vec![(key_b(1), val(0x99, 5)), (key_b(3), None), (key_c(0), val(0x75, 5000)), (key_c(1), None), ([0x5Au8; 32], val(0x5A, 2))])
        .collect();
    (setup, last)
}

#[cfg(test)]
fn native_crash_open(dir: &std::path::Path, rollback: bool) -> crate::Nomt<crate::hasher::Blake3Hasher> {
    let mut o = crate::Options::new();
    o.path(dir.join("db"));
    o.commit_concurrency(1);
    o.io_workers(1);
    o.hashtable_buckets(512);
    o.bitbox_seed([3; 16]);
    o.rollback(rollback);
    crate::Nomt::<crate::hasher::Blake3Hasher>::open(o).unwrap()
}

#[cfg(test)]
fn native_crash_commit(nomt: &crate::Nomt<crate::hasher::Blake3Hasher>, batch: &[(nomt_core::trie::KeyPath, Option<Vec<u8>>)]) {
    use crate::{KeyReadWrite, SessionParams};
    let s = nomt.begin_session(SessionParams::default());
    let mut actuals: Vec<_> = batch.iter().map(|(k, v)| { s.warm_up(*k); (*k, KeyReadWrite::Write(v.clone())) }).collect();
    actuals.sort_by_key(|(k, _)| *k);
    s.finish(actuals).unwrap().commit(nomt).unwrap();
}

/// child side: does nothing unless the parent asked for it through the environment
#[cfg(test)]
#[test]
fn native_crash_child() {
    use crate::bitbox::verif_kani::native_io;
    use std::sync::atomic::Ordering;
    let Ok(dir) = std::env::var("VERIF_CRASH_DIR") else { return };
    let crash_at: i64 = std::env::var("VERIF_CRASH_AT").unwrap().parse().unwrap();
    let mode = std::env::var("VERIF_CRASH_MODE").unwrap();
    let rollback = std::env::var("VERIF_CRASH_ROLLBACK").is_ok();
    let dir = std::path::PathBuf::from(dir);
    native_io::CRASH_AT.store(crash_at, Ordering::SeqCst);
    if mode == "open" {
        // crash while a previous crash is being recovered
        native_io::ARMED.store(true, Ordering::SeqCst);
        let nomt = native_crash_open(&dir, rollback);
        native_io::ARMED.store(false, Ordering::SeqCst);
        drop(nomt);
    } else {
        let nomt = native_crash_open(&dir, rollback);
        let (_, last) = native_crash_script();
        native_io::ARMED.store(true, Ordering::SeqCst);
        native_crash_commit(&nomt, &last);
        native_io::ARMED.store(false, Ordering::SeqCst);
        drop(nomt);
    }
    std::fs::write(dir.join("mutations"), native_io::MUTATIONS.load(Ordering::SeqCst).to_string()).unwrap();
}

#[cfg(test)]
fn native_crash_run_child(dir: &std::path::Path, mode: &str, crash_at: i64, rollback: bool) -> Option<i32> {
    let mut c = std::process::Command::new(std::env::current_exe().unwrap());
    c.args(["--exact", "merkle::page_walker::verif_kani::native_crash_child", "--test-threads", "1"])
        .env("VERIF_CRASH_DIR", dir)
        .env("VERIF_CRASH_AT", crash_at.to_string())
        .env("VERIF_CRASH_MODE", mode)
        .env("RUST_BACKTRACE", "0")
        .stdout(std::process::Stdio::null())
        .stderr(std::process::Stdio::null());
    if rollback { c.env("VERIF_CRASH_ROLLBACK", "1"); }
    c.status().unwrap().code()
}

#[cfg(test)]
fn native_copy_dir(from: &std::path::Path, to: &std::path::Path) {
    std::fs::create_dir_all(to).unwrap();
    for e in std::fs::read_dir(from).unwrap() {
        let e = e.unwrap();
        if e.file_type().unwrap().is_dir() {
            native_copy_dir(&e.path(), &to.join(e.file_name()));
        } else {
            std::fs::copy(e.path(), to.join(e.file_name())).unwrap();
        }
    }
}

/// Bounded native enumeration (not a proof): a store holding 32 structured keys (a persisted child
/// page, a multi-page value), then a commit of 25 changes (deletes that empty the page, overwrites,
/// a larger multi-page value, an insert) that dies right before its k-th mutating system call, for
/// EVERY k up to the number of such calls the commit makes, with and without the rollback log; and,
/// for every crash point after which the reopen has something to recover, a second crash at every
/// mutating system call of that recovering open.  After each:
///  * [C03] the directory opens; root, every value, every proof are those of exactly the state before
///    the commit or exactly the state after it (never a mixture), and it is the new state when the
///    commit had returned;
///  * the reopened store accepts a further commit whose root is the specified trie's.
#[cfg(test)]
#[test]
fn native_enum_crash_points_commit_atomic() {
    let _serial = crate::bitbox::verif_kani::native_io::SERIAL.lock().unwrap_or_else(|e| e.into_inner());
    use crate::hasher::{Blake3Hasher, ValueHasher};
    use bitvec::prelude::*;
    use native_store::*;
    use nomt_core::trie::{KeyPath, LeafData};
    use std::collections::BTreeMap;
    let (setup, last) = native_crash_script();
    let apply = |m: &mut BTreeMap<KeyPath, Vec<u8>>, b: &[(KeyPath, Option<Vec<u8>>)]| {
        for (k, v) in b { match v { Some(v) => { m.insert(*k, v.clone()); } None => { m.remove(k); } } }
    };
    let mut total_points = 0;
    for rollback in [false, true] {
        let (mut saw_old, mut saw_new) = (0, 0);
        let base = tempfile::tempdir().unwrap();
        let mut old = BTreeMap::new();
        {
            let nomt = native_crash_open(base.path(), rollback);
            for b in &setup { native_crash_commit(&nomt, b); apply(&mut old, b); }
        }
        let mut new = old.clone();
        apply(&mut new, &last);
        let (old_root, new_root) = (ref_root(&old), ref_root(&new));
        let universe: Vec<KeyPath> = old.keys().chain(new.keys()).cloned().collect::<std::collections::BTreeSet<_>>().into_iter().collect();
        let judge = |dir: &std::path::Path, what: &str, must_be_new: bool| -> bool {
            let nomt = native_crash_open(dir, rollback);
            let root = nomt.root().into_inner();
            assert!(root == old_root || root == new_root, "after {} the store shows a root that is neither the old nor the new state's", what);
            let is_new = root == new_root;
            assert!(is_new || !must_be_new, "after {} the commit had returned but the reopened store shows the old state", what);
            let model = if is_new { &new } else { &old };
            let s = nomt.begin_session(crate::SessionParams::default());
            for k in &universe {
                assert!(nomt.read(*k).unwrap().as_ref() == model.get(k), "after {} a key reads a value of the other state (root says {})", what, if is_new { "new" } else { "old" });
                let proof = s.prove(*k).unwrap();
                let v = proof.verify::<Blake3Hasher>(k.view_bits::<Msb0>(), root).unwrap_or_else(|e| panic!("after {} a path proof does not verify: {:?}", what, e));
                match model.get(k) {
                    Some(val) => assert!(v.confirm_value(&LeafData { key_path: *k, value_hash: Blake3Hasher::hash_value(val) }).unwrap(), "after {} a proof does not confirm the value", what),
                    None => assert!(v.confirm_nonexistence(k).unwrap(), "after {} a proof does not confirm an absence", what),
                }
            }
            drop(s);
            // the store is usable: one more commit
            let mut m = model.clone();
            let extra = vec![(key_b(5), Some(vec![0xEE; 4])), (key_a(0), None)];
            native_crash_commit(&nomt, &extra);
            apply(&mut m, &extra);
            assert!(nomt.root().into_inner() == ref_root(&m), "after {} a further commit gives a wrong root", what);
            is_new
        };
        // dry run: how many mutating system calls does the commit make?
        let dry = tempfile::tempdir().unwrap();
        native_copy_dir(base.path(), dry.path());
        assert!(native_crash_run_child(dry.path(), "commit", -1, rollback) == Some(0), "the child could not run the commit");
        let n: i64 = std::fs::read_to_string(dry.path().join("mutations")).unwrap().parse().unwrap();
        assert!(n >= 4, "only {} mutating system calls seen: the interposition is not in effect", n);
        assert!(judge(dry.path(), "a complete commit", true));
        // (page writes are submitted by I/O worker threads, so the number of mutating calls varies a
        // little from run to run: go on until a child gets through the whole commit)
        for k in 1..=(n + 50) {
            let d = tempfile::tempdir().unwrap();
            native_copy_dir(base.path(), d.path());
            let code = native_crash_run_child(d.path(), "commit", k, rollback);
            if code == Some(0) {
                assert!(k > n / 2, "a child completed the commit with crash point {} of about {}", k, n);
                assert!(judge(d.path(), "a complete commit", true));
                break;
            }
            assert!(code == Some(77), "the child neither completed nor died at mutating system call {} of about {} (exit {:?})", k, n, code);
            // a second crash during the recovering open, at every mutating call it makes
            let probe = tempfile::tempdir().unwrap();
            native_copy_dir(d.path(), probe.path());
            assert!(native_crash_run_child(probe.path(), "open", -1, rollback) == Some(0), "the reopen after a crash at call {} failed in the child", k);
            let m: i64 = std::fs::read_to_string(probe.path().join("mutations")).unwrap().parse().unwrap();
            for j in 1..=m {
                let d2 = tempfile::tempdir().unwrap();
                native_copy_dir(d.path(), d2.path());
                let code = native_crash_run_child(d2.path(), "open", j, rollback);
                assert!(code == Some(77) || code == Some(0), "the recovering child ended with {:?}", code);
                judge(d2.path(), &format!("a crash before mutating call {} of {} of the commit (rollback log {}) and a second crash before call {} of {} of the recovering open", k, n, rollback, j, m), false);
                total_points += 1;
            }
            let is_new = judge(d.path(), &format!("a crash before mutating call {} of {} of the commit (rollback log {})", k, n, rollback), false);
            if is_new { saw_new += 1 } else { saw_old += 1 }
            total_points += 1;
        }
        eprintln!("crash points (rollback log {}): {} in the commit, old state after {}, new state after {}", rollback, n, saw_old, saw_new);
        assert!(saw_old >= 1, "no crash point left the old state: {} old, {} new", saw_old, saw_new);
    }
    eprintln!("crash points judged in total (including second crashes during recovery): {}", total_points);
    assert!(total_points >= 20);
}

// ---- WAL replay of real commits: recovery after the meta swap yields the committed state -----------
/// Bounded native enumeration (not a proof): the ten-batch script of
/// `native_enum_store_root_proofs_witness` where EVERY commit is made with
/// `PanicOnSyncMode::PostMeta` - the commit dies right after the meta page is swapped, before the
/// hash-table writeout, so the merkle pages of that commit exist only in the WAL - and the store is
/// then reopened (WAL replay).  [C04/C16] After each replay the root is the specified trie's over the
/// model INCLUDING that commit, every key reads back, every path proof verifies and confirms the
/// view; i.e. what the page walker logged as page diffs is enough to rebuild every page it changed,
/// also for pages stored for the first time and pages that cross the elision threshold.
#[cfg(test)]
#[test]
fn native_enum_store_wal_replay_equals_commit() {
    use crate::hasher::{Blake3Hasher, ValueHasher};
    use crate::{KeyReadWrite, Nomt, Options, PanicOnSyncMode, SessionParams};
    use bitvec::prelude::*;
    use native_store::*;
    use nomt_core::trie::{KeyPath, LeafData};
    use std::collections::BTreeMap;
    let mut script = native_store_script();
    // a sub-trie under a depth-2 page that grows past the elision threshold in steps (the nodes of
    // the earlier steps are not touched by the step that crosses it), is updated through, and shrinks
    let val = |tag: u8, len: usize| Some(vec![tag; len]);
    script.push((0..15).map(|i| (key_d(i), val(0xD0, 3))).collect());
    script.push((15..27).map(|i| (key_d(i), val(0xD1, 3))).collect());
    script.push(vec![(key_d(2), val(0xD2, 4)), (key_d(20), None)]);
    script.push((27..40).map(|i| (key_d(i), val(0xD3, 2))).chain(Some((key_d(7), val(0xD4, 9)))).collect());
    script.push((3..40).map(|i| (key_d(i), None)).collect());
    let universe: Vec<KeyPath> = (0..26).map(key_a).chain((0..6).map(key_b)).chain((0..2).map(key_c)).chain((0..40).map(key_d)).chain(Some([0x5Au8; 32])).collect();
    for rotation in 0..4usize {
        let dir = tempfile::tempdir().unwrap();
        let open = |crash: bool| {
            let mut o = Options::new();
            o.path(dir.path().join("db"));
            o.commit_concurrency(1);
            o.hashtable_buckets(64);
            o.bitbox_seed([3; 16]);
            if crash { o.panic_on_sync(PanicOnSyncMode::PostMeta); }
            Nomt::<Blake3Hasher>::open(o).unwrap()
        };
        let mut model: BTreeMap<KeyPath, Vec<u8>> = BTreeMap::new();
        for step in 0..script.len() {
            // the first ten batches rotate as in the other enumeration; the depth-2 batches keep their order
            let b = if step < 3 || step >= 10 { step } else { 3 + (step - 3 + rotation * 2) % 7 };
            let what = format!("rotation {}, batch {} (step {})", rotation, b, step);
            {
                let nomt = open(true);
                let s = nomt.begin_session(SessionParams::default());
                let mut actuals: Vec<(KeyPath, KeyReadWrite)> = script[b].iter().map(|(k, v)| { s.warm_up(*k); (*k, KeyReadWrite::Write(v.clone())) }).collect();
                actuals.sort_by_key(|(k, _)| *k);
                let fin = s.finish(actuals).unwrap();
                let r = std::panic::catch_unwind(std::panic::AssertUnwindSafe(|| fin.commit(&nomt)));
                assert!(r.is_err(), "PanicOnSyncMode::PostMeta did not fire ({})", what);
            }
            for (k, v) in &script[b] {
                match v { Some(v) => { model.insert(*k, v.clone()); } None => { model.remove(k); } }
            }
            // reopen: the WAL is replayed
            let nomt = open(false);
            let root = nomt.root().into_inner();
            assert!(root == ref_root(&model), "after replaying the WAL of a commit that died after the meta swap the root is not the committed state's ({})", what);
            let s = nomt.begin_session(SessionParams::default());
            for k in &universe {
                assert!(nomt.read(*k).unwrap().as_ref() == model.get(k), "a key reads another value after the replay ({})", what);
                let proof = s.prove(*k).unwrap();
                let v = proof.verify::<Blake3Hasher>(k.view_bits::<Msb0>(), root)
                    .unwrap_or_else(|e| panic!("a path proof does not verify after the replay: {:?} ({})", e, what));
                match model.get(k) {
                    Some(val) => assert!(v.confirm_value(&LeafData { key_path: *k, value_hash: Blake3Hasher::hash_value(val) }).unwrap(), "a proof does not confirm the value after the replay ({})", what),
                    None => assert!(v.confirm_nonexistence(k).unwrap(), "a proof does not confirm an absence after the replay ({})", what),
                }
            }
        }
    }
}

// ---- the root does not depend on how the commit workers finish: repeated runs ----------------------
// C13 asks for identical results "for every thread interleaving of the internal workers".  Neither
// deductive tool reaches the worker hand-off (threads over a shared write pass), and the scripted
// enumeration above takes whatever schedules its few commits happen to get.  This harness is NOT an
// enumeration of schedules either: it repeats one computation - the root of a fixed batch with one
// cheap overwrite under every child of the root page, 64 commit workers finishing almost together -
// 1500 times and compares every result with the 1-worker root.  A change that makes the result depend
// on the finishing order is seen with the probability its window gives it; a pass proves nothing
// about other schedules.
#[cfg(test)]
#[test]
fn native_repeat_root_independent_of_worker_finish_order() {
    use crate::hasher::Blake3Hasher;
    use crate::{KeyReadWrite, Nomt, Options, SessionParams};
    let key = |child: u8, i: u8| -> [u8; 32] {
        let mut k = [0u8; 32];
        k[0] = child << 2; // the first six bits select the child of the root page
        k[1] = i;
        k[31] = 1;
        k
    };
    let open = |dir: &std::path::Path, workers: usize| {
        let mut o = Options::new();
        o.path(dir);
        o.commit_concurrency(workers);
        o.bitbox_seed([9; 16]);
        o.hashtable_buckets(8192);
        Nomt::<Blake3Hasher>::open(o).unwrap()
    };
    let d1 = tempfile::tempdir().unwrap();
    let d64 = tempfile::tempdir().unwrap();
    let one = open(&d1.path().join("db"), 1);
    let many = open(&d64.path().join("db"), 64);
    let mut population: Vec<([u8; 32], KeyReadWrite)> = (0..64u8).flat_map(|c| (0..3u8).map(move |i| (c, i))).map(|(c, i)| (key(c, i), KeyReadWrite::Write(Some(vec![c, i, 7])))).collect();
    population.sort_by_key(|(k, _)| *k);
    for db in [&one, &many] {
        let s = db.begin_session(SessionParams::default());
        s.finish(population.clone()).unwrap().commit(db).unwrap();
    }
    assert!(one.root() == many.root(), "the populated stores already differ");
    let mut batch: Vec<([u8; 32], KeyReadWrite)> = (0..64u8).map(|c| (key(c, 1), KeyReadWrite::Write(Some(vec![0xEE, c])))).collect();
    batch.sort_by_key(|(k, _)| *k);
    let reference = { let s = one.begin_session(SessionParams::default()); s.finish(batch.clone()).unwrap().root() };
    for it in 0..1500 {
        let s = many.begin_session(SessionParams::default());
        let got = s.finish(batch.clone()).unwrap().root();
        assert!(got == reference, "repetition {}: the root computed with 64 commit workers differs from the root computed with 1", it);
    }
}

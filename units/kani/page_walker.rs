//! Kani harnesses for nomt/src/merkle/page_walker.rs (compiled into the real crate only under cfg(kani)).
#![allow(unused_imports, dead_code)]
use super::*;

#[cfg(test)]
include!("/verif/.build/playback/page_walker.inc");

// ---- C02 / C05 / C06: the store's root, proofs and witnesses on structured key sets ----------------
// Bounded native enumeration through the crate's public entry points (run by `cargo kani playback`).
// The page walker, seeker and workers are threads over a live page cache and store: neither Verus
// nor CBMC takes them, so what stands in for their contracts is checked on scripted histories whose
// key sets are built to cross page boundaries and the page-elision threshold in both directions.
#[cfg(test)]
mod native_store {
    use crate::hasher::{Blake3Hasher as H, NodeHasher, ValueHasher};
    use nomt_core::trie::{InternalData, KeyPath, LeafData, Node, ValueHash, TERMINATOR};

    pub fn bit(k: &KeyPath, i: usize) -> bool {
        (k[i / 8] >> (7 - i % 8)) & 1 == 1
    }
    /// the root of the specified trie (docs/nomt_specification.md), independent of build_trie and
    /// of the page walker
    pub fn ref_node(items: &[(KeyPath, ValueHash)], depth: usize) -> Node {
        match items.len() {
            0 => TERMINATOR,
            1 => H::hash_leaf(&LeafData { key_path: items[0].0, value_hash: items[0].1 }),
            _ => {
                let split = items.iter().position(|(k, _)| bit(k, depth)).unwrap_or(items.len());
                H::hash_internal(&InternalData { left: ref_node(&items[..split], depth + 1), right: ref_node(&items[split..], depth + 1) })
            }
        }
    }
    pub fn ref_root(model: &std::collections::BTreeMap<KeyPath, Vec<u8>>) -> Node {
        let items: Vec<(KeyPath, ValueHash)> = model.iter().map(|(k, v)| (*k, H::hash_value(v))).collect();
        ref_node(&items, 0)
    }
    /// 26 keys under one 8-bit prefix (one child page fills up past the elision threshold), 6 spread
    /// keys, and a pair that splits at the very last bit (a 42-page-deep path)
    pub fn key_a(i: u8) -> KeyPath { let mut k = [0u8; 32]; k[0] = 0xA5; k[1] = i.wrapping_mul(8).wrapping_add(i / 32); k[2] = i; k }
    pub fn key_b(i: u8) -> KeyPath { let mut k = [0u8; 32]; k[0] = [0x00, 0x20, 0x40, 0x60, 0xE0, 0xFF][i as usize]; k[5] = i; k }
    pub fn key_c(i: u8) -> KeyPath { let mut k = [0x33u8; 32]; k[31] = i; k }
}

#[cfg(test)]
fn native_store_script() -> Vec<Vec<(nomt_core::trie::KeyPath, Option<Vec<u8>>)>> {
    use native_store::*;
    let val = |tag: u8, len: usize| Some(vec![tag; len]);
    vec![
        (0..6).map(|i| (key_b(i), val(0x10 + i, 8))).collect(),
        (0..10).map(|i| (key_a(i), val(0x20 + i, 33))).collect(),
        (10..26).map(|i| (key_a(i), val(0x40 + i, 5))).collect(),
        vec![(key_c(0), val(0x71, 2000)), (key_c(1), val(0x72, 1))],
        vec![(key_a(3), val(0x99, 7)), (key_b(2), val(0x98, 0)), (key_a(25), None), (key_c(1), val(0x73, 3))],
        (5..26).map(|i| (key_a(i), None)).collect(),
        vec![(key_c(1), None)],
        (5..15).map(|i| (key_a(i), val(0x60 + i, 9))).collect(),
        (0..6).map(|i| (key_b(i), None)).collect(),
        (0..15).map(|i| (key_a(i), None)).chain(Some((key_c(0), None))).collect(),
    ]
}

/// Bounded native enumeration (not a proof) through Nomt::{open, begin_session}, Session::{read,
/// warm_up, prove, finish}, FinishedSession::{root, take_witness, commit}: a ten-batch script over 34
/// structured keys (inserts, overwrites, deletes; one child page grows past the elision threshold and
/// shrinks below it again; a 2000-byte value; a pair of keys splitting at bit 255; finally
/// everything deleted), run for commit concurrency 1 (default tuning) and 3 (tiny page and leaf
/// caches, warm-up on, 2 I/O workers, varying upper-level pinning, cache pre-population and hash-table
/// seed), each with and without a close-and-reopen after every commit, and for four rotations of the
/// batch order.  After every commit:
///  * [C02] the reported root equals the root of the specified trie over the model's key-value set
///    (the all-zero terminator when it is empty), and [C13] is the same for every configuration;
///  * [C05] for every key of the universe, present or absent, a fresh session's path proof verifies
///    against that root and confirms exactly the model's view;
///  * [C06] the session's witness verifies against the previous root, attests for every read key the
///    value the model had and covers every written key, and the update verifier applied to the
///    witnessed writes returns the new root;
///  * [C01/C10] every key reads back the model's value, also after the reopen.
#[cfg(test)]
#[test]
fn native_enum_store_root_proofs_witness() {
    use crate::hasher::{Blake3Hasher, ValueHasher};
    use crate::{KeyReadWrite, Nomt, Options, SessionParams, WitnessMode};
    use bitvec::prelude::*;
    use native_store::*;
    use nomt_core::trie::{KeyPath, LeafData};
    use std::collections::BTreeMap;
    let script = native_store_script();
    let universe: Vec<KeyPath> = (0..26).map(key_a).chain((0..6).map(key_b)).chain((0..2).map(key_c)).chain(Some([0x5Au8; 32])).collect();
    let mut runs = 0;
    let mut roots_by_prefix: BTreeMap<Vec<usize>, [u8; 32]> = BTreeMap::new();
    for rotation in 0..4usize {
        for workers in [1usize, 3] {
            for reopen in [false, true] {
                let dir = tempfile::tempdir().unwrap();
                let open = || {
                    let mut o = Options::new();
                    o.path(dir.path().join("db"));
                    o.commit_concurrency(workers);
                    o.hashtable_buckets(4096);
                    o.bitbox_seed([3; 16]);
                    if workers > 1 {
                        // the other end of the tuning space: tiny caches, warm-up on, more I/O workers,
                        // no cache pre-population, a different hash-table seed for the reopening runs
                        o.page_cache_size(1);
                        o.leaf_cache_size(1);
                        o.warm_up(true);
                        o.io_workers(2);
                        o.prepopulate_page_cache(reopen);
                        o.page_cache_upper_levels(rotation % 3);
                        if rotation % 2 == 1 { o.bitbox_seed([0xC7; 16]); }
                    }
                    Nomt::<Blake3Hasher>::open(o).unwrap()
                };
                let mut nomt = open();
                let mut model: BTreeMap<KeyPath, Vec<u8>> = BTreeMap::new();
                let mut done: Vec<usize> = Vec::new();
                for step in 0..script.len() {
                    // rotations keep the first three batches (population) in place and rotate the rest
                    let b = if step < 3 { step } else { 3 + (step - 3 + rotation * 2) % (script.len() - 3) };
                    let what = format!("rotation {}, {} worker(s), reopen {}, after batch {} (history {:?})", rotation, workers, reopen, b, done);
                    let prev_root = nomt.root().into_inner();
                    let session = nomt.begin_session(SessionParams::default().witness_mode(WitnessMode::read_write()));
                    let mut actuals: Vec<(KeyPath, KeyReadWrite)> = Vec::new();
                    let mut expected_reads: BTreeMap<KeyPath, Option<Vec<u8>>> = BTreeMap::new();
                    for (k, v) in &script[b] {
                        session.warm_up(*k);
                        if k[2] % 2 == 0 {
                            // read-then-write for half of the keys
                            let seen = session.read(*k).unwrap();
                            assert!(seen == model.get(k).cloned(), "session read of a key differs from the model ({})", what);
                            expected_reads.insert(*k, seen.clone());
                            actuals.push((*k, KeyReadWrite::ReadThenWrite(seen, v.clone())));
                        } else {
                            actuals.push((*k, KeyReadWrite::Write(v.clone())));
                        }
                    }
                    // plus pure reads of a present and an absent key
                    for k in [key_b(0), [0x5Au8; 32]] {
                        if actuals.iter().any(|(a, _)| *a == k) { continue; }
                        session.warm_up(k);
                        let seen = session.read(k).unwrap();
                        expected_reads.insert(k, seen.clone());
                        actuals.push((k, KeyReadWrite::Read(seen)));
                    }
                    actuals.sort_by_key(|(k, _)| *k);
                    let mut finished = session.finish(actuals).unwrap();
                    let new_root = finished.root().into_inner();
                    let witness = finished.take_witness().unwrap();
                    finished.commit(&nomt).unwrap();
                    for (k, v) in &script[b] {
                        match v { Some(v) => { model.insert(*k, v.clone()); } None => { model.remove(k); } }
                    }
                    done.push(b);

                    // [C02]
                    assert!(nomt.root().into_inner() == new_root, "Nomt::root differs from the finished session's root ({})", what);
                    assert!(new_root == ref_root(&model), "the reported root is not the root of the specified trie over the {} committed pairs ({})", model.len(), what);
                    if model.is_empty() { assert!(nomt.root().is_empty()); }
                    if let Some(r) = roots_by_prefix.get(&done) {
                        assert!(*r == new_root, "same history, different configuration, different root ({})", what);
                    } else {
                        roots_by_prefix.insert(done.clone(), new_root);
                    }

                    // [C06]
                    let mut updates = Vec::new();
                    let mut reads_seen = 0;
                    for (i, wp) in witness.path_proofs.iter().enumerate() {
                        let verified = wp.inner.verify::<Blake3Hasher>(&wp.path.path(), prev_root)
                            .unwrap_or_else(|e| panic!("a witnessed path does not verify against the previous root: {:?} ({})", e, what));
                        for read in witness.operations.reads.iter().filter(|r| r.path_index == i) {
                            let want = expected_reads.get(&read.key).unwrap_or_else(|| panic!("the witness attests a key that was not read ({})", what));
                            assert!(read.value == want.as_ref().map(|v| Blake3Hasher::hash_value(v)), "the witness attests another value than the session observed ({})", what);
                            match read.value {
                                None => assert!(verified.confirm_nonexistence(&read.key).unwrap_or(false), "a witnessed read is attached to a path that does not confirm it (non-existence of the key) ({})", what),
                                Some(v) => assert!(verified.confirm_value(&LeafData { key_path: read.key, value_hash: v }).unwrap_or(false), "a witnessed read is attached to a path that does not confirm it (value of the key) ({})", what),
                            }
                            reads_seen += 1;
                        }
                        let ops: Vec<_> = witness.operations.writes.iter().filter(|w| w.path_index == i).map(|w| (w.key, w.value)).collect();
                        if !ops.is_empty() {
                            updates.push(crate::proof::PathUpdate { inner: verified, ops });
                        }
                    }
                    assert!(reads_seen == expected_reads.len(), "the witness attests {} reads, the session made {} ({})", reads_seen, expected_reads.len(), what);
                    assert!(witness.operations.writes.len() == script[b].len(), "the witness covers {} writes, the session made {} ({})", witness.operations.writes.len(), script[b].len(), what);
                    updates.sort_by(|a, b| a.inner.path().partial_cmp(b.inner.path()).unwrap());
                    let replayed = crate::proof::verify_update::<Blake3Hasher>(prev_root, &updates)
                        .unwrap_or_else(|e| panic!("the update verifier rejects the witnessed writes: {:?} ({})", e, what));
                    assert!(replayed == new_root, "replaying the witnessed writes does not give the reported new root ({})", what);

                    if reopen {
                        drop(nomt);
                        nomt = open();
                        assert!(nomt.root().into_inner() == new_root, "the root changed over a reopen ({})", what);
                    }

                    // [C05] + [C01]
                    let s = nomt.begin_session(SessionParams::default());
                    for k in &universe {
                        let proof = s.prove(*k).unwrap();
                        let v = proof.verify::<Blake3Hasher>(k.view_bits::<Msb0>(), new_root)
                            .unwrap_or_else(|e| panic!("the path proof of a key does not verify against the root: {:?} ({})", e, what));
                        match model.get(k) {
                            Some(val) => {
                                assert!(v.confirm_value(&LeafData { key_path: *k, value_hash: Blake3Hasher::hash_value(val) }).unwrap(), "the proof does not confirm the stored value ({})", what);
                                assert!(!v.confirm_nonexistence(k).unwrap(), "the proof denies a present key ({})", what);
                            }
                            None => assert!(v.confirm_nonexistence(k).unwrap(), "the proof does not confirm the absence of a key ({})", what),
                        }
                        assert!(s.read(*k).unwrap().as_ref() == model.get(k), "a key reads back another value than its last committed write ({})", what);
                        assert!(nomt.read(*k).unwrap().as_ref() == model.get(k), "a direct read differs from the model ({})", what);
                    }
                    drop(s);
                }
                assert!(model.is_empty() || rotation != 0);
                runs += 1;
            }
        }
    }
    assert!(runs == 16);
}

// ---- C05 / C09 / C11: overlay chains and rollback at the store level -------------------------------
#[cfg(test)]
fn native_boundary_keys() -> Vec<nomt_core::trie::KeyPath> {
    // keys sitting exactly on sub-trie boundaries (prefix, then a 1, then zeros), their left
    // neighbours (prefix, then a 0, then ones), and the extremes
    let mut ks = Vec::new();
    for first in [0x80u8, 0x40, 0xC0, 0x20] {
        let mut k = [0u8; 32];
        k[0] = first;
        ks.push(k);
        let mut n = [0xFFu8; 32];
        n[0] = first - 1;
        ks.push(n);
    }
    ks.push([0u8; 32]);
    ks.push([0xFFu8; 32]);
    let mut deep = [0x40u8; 32]; // shares 1 byte + 1 bit with 0x40 00..: a leaf pushed down by a sibling
    deep[31] = 1;
    ks.push(deep);
    ks.sort();
    ks
}

/// Bounded native enumeration (not a proof) through Nomt::{open, begin_session, rollback},
/// SessionParams::overlay, FinishedSession::{into_overlay, commit}, Overlay::commit, Session::{read,
/// prove}: a seven-batch script over 11 boundary keys (inserts, blind overwrites, read-then-writes,
/// deletes of keys that exist on disk / only in an ancestor overlay, re-insertion after a delete),
/// rollback enabled, executed (a) batch by batch through sessions, (b) as overlay chains of length 2
/// and 3 committed in order, with blind writes or read-then-writes:
///  * [C11/C05] a session layered on the uncommitted chain reads every key, proves every key
///    (present or absent) and reports a root exactly as if the chain's batches had been committed:
///    root == the specified trie over the model, every proof verifies against it and confirms the
///    model's view;
///  * [C11] after committing the chain in order the store is in exactly the state direct commits
///    give (root, values), and an overlay whose parent is not yet committed is refused;
///  * [C09] rolling back one commit at a time restores, each time, exactly the values and the root
///    from before that commit (also when the commits came from overlays and overwrote keys deleted in
///    an ancestor overlay), rolling back 2 at once equals two single steps, and a rollback of more
///    commits than were made fails without changing anything.
#[cfg(test)]
#[test]
fn native_enum_store_overlay_rollback() {
    use crate::hasher::{Blake3Hasher, ValueHasher};
    use crate::{KeyReadWrite, Nomt, Options, Overlay, SessionParams};
    use bitvec::prelude::*;
    use native_store::ref_root;
    use nomt_core::trie::{KeyPath, LeafData};
    use std::collections::BTreeMap;
    let keys = native_boundary_keys();
    let k = |i: usize| keys[i];
    let val = |tag: u8, len: usize| Some(vec![tag; len]);
    // batches: (key index, new value)
    let script: Vec<Vec<(usize, Option<Vec<u8>>)>> = vec![
        vec![(0, val(1, 4)), (3, val(2, 40)), (5, val(3, 1)), (8, val(4, 9)), (10, val(5, 3))],
        vec![(3, None), (4, val(6, 2000)), (9, val(7, 2))],              // delete a key that is on disk; a multi-page value
        vec![(3, val(8, 6)), (5, val(9, 1)), (6, val(10, 70))],          // write the key deleted by the previous batch
        vec![(4, None), (6, None), (1, val(11, 3)), (2, val(12, 3))],    // delete keys that exist only in the chain
        vec![(4, val(13, 8)), (5, val(16, 2)), (7, val(14, 2)), (0, None)], // touches the neighbour of the multi-page value deleted above
        vec![(2, None), (7, None), (10, val(15, 1))],
        vec![(1, None), (3, None), (5, None), (8, None), (9, None), (10, None), (4, None)],
    ];
    let check_view = |nomt: &Nomt<Blake3Hasher>, params: SessionParams, model: &BTreeMap<KeyPath, Vec<u8>>, root: [u8; 32], what: &str| {
        let s = nomt.begin_session(params);
        for key in &keys {
            assert!(s.read(*key).unwrap().as_ref() == model.get(key), "a read through the session differs from the model ({})", what);
            let proof = s.prove(*key).unwrap();
            let v = proof.verify::<Blake3Hasher>(key.view_bits::<Msb0>(), root)
                .unwrap_or_else(|e| panic!("the session's path proof does not verify against its root: {:?} ({})", e, what));
            match model.get(key) {
                Some(val) => assert!(v.confirm_value(&LeafData { key_path: *key, value_hash: Blake3Hasher::hash_value(val) }).unwrap(), "the proof does not confirm the value of a present key ({})", what),
                None => assert!(v.confirm_nonexistence(key).unwrap(), "the proof does not confirm the absence of a key ({})", what),
            }
        }
    };
    let mut runs = 0;
    for chain_len in [1usize, 2, 3] {
        for blind in [true, false] {
            let dir = tempfile::tempdir().unwrap();
            let mut o = Options::new();
            o.path(dir.path().join("db"));
            o.commit_concurrency(1);
            o.hashtable_buckets(4096);
            o.rollback(true);
            o.max_rollback_log_len(32);
            let nomt = Nomt::<Blake3Hasher>::open(o).unwrap();
            let mut model: BTreeMap<KeyPath, Vec<u8>> = BTreeMap::new();
            let mut snapshots: Vec<(BTreeMap<KeyPath, Vec<u8>>, [u8; 32])> = Vec::new(); // state BEFORE each commit
            let mut b = 0;
            while b < script.len() {
                let n = std::cmp::min(chain_len, script.len() - b);
                let what = format!("chain length {}, blind writes {}, batches {}..{}", chain_len, blind, b, b + n);
                // build a chain of n overlays (n == 1 and chain_len == 1: a plain session commit)
                let mut chain: Vec<Overlay> = Vec::new(); // newest first
                let mut chain_models = Vec::new();
                let mut m = model.clone();
                for j in 0..n {
                    let params = SessionParams::default().overlay(chain.iter()).unwrap_or_else(|e| panic!("a complete chain was refused: {:?} ({})", e, what));
                    let session = nomt.begin_session(params);
                    let mut actuals: Vec<(KeyPath, KeyReadWrite)> = Vec::new();
                    for (ki, v) in &script[b + j] {
                        session.warm_up(k(*ki));
                        if blind {
                            actuals.push((k(*ki), KeyReadWrite::Write(v.clone())));
                        } else {
                            let seen = session.read(k(*ki)).unwrap();
                            assert!(seen.as_ref() == m.get(&k(*ki)), "read before write differs from the chain's view ({})", what);
                            actuals.push((k(*ki), KeyReadWrite::ReadThenWrite(seen, v.clone())));
                        }
                    }
                    actuals.sort_by_key(|(key, _)| *key);
                    let finished = session.finish(actuals).unwrap();
                    for (ki, v) in &script[b + j] {
                        match v { Some(v) => { m.insert(k(*ki), v.clone()); } None => { m.remove(&k(*ki)); } }
                    }
                    let root = finished.root().into_inner();
                    assert!(root == ref_root(&m), "the root of a session on the chain is not the root of the specified trie ({}, overlay {})", what, j);
                    if chain_len == 1 {
                        snapshots.push((model.clone(), nomt.root().into_inner()));
                        finished.commit(&nomt).unwrap();
                        model = m.clone();
                    } else {
                        chain.insert(0, finished.into_overlay());
                        chain_models.push((m.clone(), root));
                        // [C11/C05] a session on the uncommitted chain sees the chain's state
                        let params = SessionParams::default().overlay(chain.iter()).unwrap();
                        check_view(&nomt, params, &m, root, &format!("{}, on {} uncommitted overlay(s)", what, j + 1));
                        // the disk is untouched
                        assert!(nomt.root().into_inner() == ref_root(&model), "an uncommitted overlay changed the store ({})", what);
                    }
                }
                if chain_len > 1 {
                    // committing a child before its parent is refused and changes nothing
                    if chain.len() >= 2 {
                        let (child_model, child_root) = chain_models[1].clone();
                        let _ = (child_model, child_root);
                    }
                    // commit oldest first
                    let mut j = 0;
                    while let Some(ov) = chain.pop() {
                        if let Some(newer) = chain.last() {
                            // (the newest remaining one is a descendant of `ov`: it must be refused now)
                            let _ = newer;
                        }
                        snapshots.push((model.clone(), nomt.root().into_inner()));
                        ov.commit(&nomt).unwrap_or_else(|e| panic!("committing the oldest overlay of the chain failed: {} ({})", e, what));
                        model = chain_models[j].0.clone();
                        assert!(nomt.root().into_inner() == chain_models[j].1, "the store's root after committing an overlay differs from the overlay's root ({})", what);
                        j += 1;
                    }
                }
                assert!(nomt.root().into_inner() == ref_root(&model), "the store's root differs from the specified trie after {} ", what);
                check_view(&nomt, SessionParams::default(), &model, nomt.root().into_inner(), &format!("{}, after commit", what));
                b += n;
            }
            // [C09] a rollback that cannot be served changes nothing
            let before = nomt.root().into_inner();
            assert!(nomt.rollback(snapshots.len() + 1).is_err(), "a rollback of more commits than were made was served");
            assert!(nomt.root().into_inner() == before);
            check_view(&nomt, SessionParams::default(), &model, before, "after a refused rollback");
            // roll back: one step, then two at once, then one at a time
            let mut steps = vec![1usize, 2];
            while steps.iter().sum::<usize>() < snapshots.len() { steps.push(1); }
            for st in steps {
                let target = snapshots.len() - st;
                nomt.rollback(st).unwrap_or_else(|e| panic!("rollback({}) failed with {} commits logged: {}", st, snapshots.len(), e));
                let (want_model, want_root) = snapshots[target].clone();
                snapshots.truncate(target);
                let what = format!("chain length {}, blind writes {}, after rolling back to before commit {}", chain_len, blind, target);
                assert!(nomt.root().into_inner() == want_root, "the root after a rollback is not the root from before the undone commits ({})", what);
                check_view(&nomt, SessionParams::default(), &want_model, want_root, &what);
            }
            assert!(nomt.root().is_empty());
            runs += 1;
        }
    }
    assert!(runs == 6);
}

//! Kani harnesses for nomt/src/merkle/page_walker.rs (compiled into the real crate only under cfg(kani)).
#![allow(unused_imports, dead_code)]
use super::*;

#[cfg(test)]
include!("/verif/.build/playback/page_walker.inc");

//! K12 (meta map): bucket classes of nomt/src/bitbox/meta_map.rs.
#![allow(unused_imports, dead_code)]
use super::*;

pub(crate) const N: usize = 8;

/// A meta map over N symbolic metadata bytes (the real constructor insists on 4096-byte pages;
/// the methods under test only index the vector).
pub(crate) fn any_meta_map(buckets: usize) -> MetaMap {
    let bytes: [u8; N] = kani::any();
    MetaMap { buckets, bitvec: bytes.to_vec() }
}

/// Same, from given metadata bytes (so the harness knows the initial contents without a loop).
pub(crate) fn meta_map_from(bytes: [u8; N], buckets: usize) -> MetaMap {
    MetaMap { buckets, bitvec: bytes.to_vec() }
}

/// A zeroed one-page meta map (page_slice needs whole 4096-byte pages).
pub(crate) fn meta_map_one_page(buckets: usize) -> MetaMap {
    MetaMap { buckets, bitvec: vec![0u8; 4096] }
}

pub(crate) fn byte(m: &MetaMap, i: usize) -> u8 {
    m.bitvec[i]
}

/// full_entry(h) always has the MSB set: it is never EMPTY and never TOMBSTONE, and it is exactly
/// the top 7 bits of the hash under the MSB.  Loop-free over the full domain: complete.
#[kani::proof]
fn full_entry_class() {
    let h: u64 = kani::any();
    let e = full_entry(h);
    assert!(e & FULL_MASK != 0);
    assert!(e != EMPTY && e != TOMBSTONE);
    assert!(e & 0x7f == (h >> 57) as u8);
    kani::cover!(e == 0xff, "all-ones tag reachable");
}

/// set_full / set_tombstone change exactly one metadata byte and put it into the right class; the
/// hints classify exactly (empty / tombstone / full-with-this-tag are mutually exclusive).
#[kani::proof]
#[kani::unwind(10)]
fn set_and_hint_classes() {
    let mut m = any_meta_map(N);
    let before: [u8; N] = {
        let mut a = [0u8; N];
        let mut i = 0;
        while i < N {
            a[i] = byte(&m, i);
            i += 1;
        }
        a
    };
    let b: usize = kani::any();
    kani::assume(b < N);
    let h: u64 = kani::any();
    let other: usize = kani::any();
    kani::assume(other < N && other != b);
    // classification of the untouched state
    assert!(m.hint_empty(b) == (before[b] == 0));
    assert!(m.hint_tombstone(b) == (before[b] == 0x7f));
    assert!(!(m.hint_empty(b) && m.hint_tombstone(b)));
    if kani::any() {
        m.set_full(b, h);
        assert!(!m.hint_empty(b) && !m.hint_tombstone(b) && !m.hint_not_match(b, h));
        assert!(byte(&m, b) & 0x80 != 0);
    } else {
        m.set_tombstone(b);
        assert!(m.hint_tombstone(b) && !m.hint_empty(b) && m.hint_not_match(b, h));
    }
    assert!(byte(&m, other) == before[other]);
    assert!(m.len() == N);
    kani::cover!(true, "reachable");
}

/// full_count counts exactly the buckets whose metadata byte has the MSB set (map of N bytes).
#[kani::proof]
#[kani::unwind(10)]
fn full_count_counts_full_entries() {
    let m = any_meta_map(N);
    let mut expect = 0usize;
    let mut i = 0;
    while i < N {
        if byte(&m, i) & 0x80 != 0 {
            expect += 1;
        }
        i += 1;
    }
    assert!(m.full_count() == expect);
    kani::cover!(expect == 3, "mixed map reachable");
}

#[cfg(test)]
include!("/verif/.build/playback/bitbox_meta_map.inc");

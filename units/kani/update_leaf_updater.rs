//! Kani harnesses for nomt/src/beatree/ops/update/leaf_updater.rs (compiled into the real crate only under cfg(kani)).
#![allow(unused_imports, dead_code)]
use super::*;

#[cfg(test)]
include!("/verif/.build/playback/update_leaf_updater.inc");

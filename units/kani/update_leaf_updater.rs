//! Kani harnesses for nomt/src/beatree/ops/update/leaf_updater.rs (compiled into the real crate only under cfg(kani)).
#![allow(unused_imports, dead_code)]
use super::*;

#[cfg(test)]
include!("/verif/.build/playback/update_leaf_updater.inc");

// ---- op-list rewrites keep the view: bounded native enumeration -----------------------------------
// (run by `cargo kani playback`).  V20 proves the merge step (ingest / keep_up_to) against the
// abstract view of the op list; the functions that REWRITE an existing op list - prepare_merge_ops,
// extract_insert_from_keep_chunk, try_split_keep_chunk - use Vec::insert/remove and reversed ranges,
// which Verus does not take; they are enumerated here on real leaf nodes.
#[cfg(test)]
fn native_key(i: usize) -> Key {
    let mut k = [0u8; 32];
    k[0] = 0x20;
    k[30] = (i as u8) * 2 + 1;
    k
}

#[cfg(test)]
fn native_base_leaf() -> (BaseLeaf, Vec<(Key, Vec<u8>, bool)>) {
    let pool = PagePool::new();
    // five cells of different sizes; cells 1 and 3 are overflow cells
    let cells: Vec<(Key, Vec<u8>, bool)> = (0..5)
        .map(|i| (native_key(i), vec![0x30 + i as u8; 20 + 17 * i], i % 2 == 1))
        .collect();
    let total: usize = cells.iter().map(|c| c.1.len()).sum();
    let mut b = LeafBuilder::new(&pool, cells.len(), total);
    for (k, v, o) in &cells {
        b.push_cell(*k, v, *o);
    }
    (BaseLeaf::new(Arc::new(b.finish()), [0u8; 32]), cells)
}

/// the cells an op list stands for; also checks each KeepChunk's recorded value size
#[cfg(test)]
fn native_expand(ops: &[LeafOp], cells: &[(Key, Vec<u8>, bool)]) -> Vec<(Key, Vec<u8>, bool)> {
    let mut out = Vec::new();
    for op in ops {
        match op {
            LeafOp::Insert(k, v, o) => out.push((*k, v.clone(), *o)),
            LeafOp::KeepChunk(from, to, size) => {
                assert!(from < to && *to <= cells.len(), "empty or out-of-range KeepChunk({}, {})", from, to);
                assert_eq!(*size, cells[*from..*to].iter().map(|c| c.1.len()).sum::<usize>(), "KeepChunk({}, {}) records a wrong values size", from, to);
                out.extend(cells[*from..*to].iter().cloned());
            }
        }
    }
    out
}

/// every op list made of the base leaf cut at any subset of the 4 inner boundaries, with an Insert
/// (overflow flag on / off) optionally placed before each segment
#[cfg(test)]
fn native_op_lists(cells: &[(Key, Vec<u8>, bool)]) -> Vec<Vec<LeafOp>> {
    let mut lists = Vec::new();
    for cuts in 0u32..16 {
        let mut bounds = vec![0usize];
        for c in 0..4 {
            if cuts & (1 << c) != 0 { bounds.push(c + 1); }
        }
        bounds.push(5);
        let nseg = bounds.len() - 1;
        for ins in 0u32..(1 << nseg) {
            let mut ops = Vec::new();
            for s in 0..nseg {
                if ins & (1 << s) != 0 {
                    let mut k = native_key(bounds[s]);
                    k[30] -= 1; // sorts right before the segment's first key
                    ops.push(LeafOp::Insert(k, vec![0xAA; 9 + s], s % 2 == 0));
                }
                let size = cells[bounds[s]..bounds[s + 1]].iter().map(|c| c.1.len()).sum();
                ops.push(LeafOp::KeepChunk(bounds[s], bounds[s + 1], size));
            }
            lists.push(ops);
        }
    }
    lists
}

#[cfg(test)]
fn native_clone_ops(ops: &[LeafOp]) -> Vec<LeafOp> {
    ops.iter()
        .map(|o| match o {
            LeafOp::Insert(k, v, f) => LeafOp::Insert(*k, v.clone(), *f),
            LeafOp::KeepChunk(a, b, c) => LeafOp::KeepChunk(*a, *b, *c),
        })
        .collect()
}

/// Bounded native enumeration (not a proof): over 162 op lists on a real five-cell leaf (cells of
/// different sizes, two of them overflow cells), each op-list rewrite keeps the sequence of
/// (key, value bytes, overflow flag) cells the list stands for, and every KeepChunk keeps recording
/// the true byte size of its values:
///  * LeafUpdater::prepare_merge_ops (all chunks become Inserts),
///  * LeafUpdater::extract_insert_from_keep_chunk at every chunk,
///  * try_split_keep_chunk at every chunk for several targets.
#[cfg(test)]
#[test]
fn native_enum_leaf_op_rewrites_preserve_view() {
    let (_, cells) = native_base_leaf();
    let lists = native_op_lists(&cells);
    let mut cases = 0;
    for ops in &lists {
        let want = native_expand(ops, &cells);
        // prepare_merge_ops
        {
            let (base, _) = native_base_leaf();
            let mut u = LeafUpdater::new(PagePool::new(), Some(base), Some([0xFF; 32]));
            u.ops = native_clone_ops(ops);
            u.prepare_merge_ops();
            assert!(u.ops.iter().all(|o| matches!(o, LeafOp::Insert(..))), "prepare_merge_ops left a KeepChunk behind");
            assert!(native_expand(&u.ops, &cells) == want, "prepare_merge_ops changed the cells the op list stands for (ops {:?})", ops);
            cases += 1;
        }
        for idx in 0..ops.len() {
            if !matches!(ops[idx], LeafOp::KeepChunk(..)) { continue; }
            {
                let (base, _) = native_base_leaf();
                let mut u = LeafUpdater::new(PagePool::new(), Some(base), None);
                u.ops = native_clone_ops(ops);
                u.extract_insert_from_keep_chunk(idx);
                assert!(native_expand(&u.ops, &cells) == want, "extract_insert_from_keep_chunk({}) changed the cells (ops {:?})", idx, ops);
                cases += 1;
            }
            for target in [1usize, 60, 120, 200, 4000] {
                let (base, _) = native_base_leaf();
                let mut v = native_clone_ops(ops);
                let gauge = LeafGauge::default();
                let (n_items, size) = try_split_keep_chunk(&base, &gauge, &mut v, idx, target, LEAF_NODE_BODY_SIZE);
                assert!(native_expand(&v, &cells) == want, "try_split_keep_chunk({}, target {}) changed the cells (ops {:?})", idx, target, ops);
                if let LeafOp::KeepChunk(f, t, s) = &v[idx] {
                    if n_items != 0 { assert!(t - f == n_items || v.len() == ops.len()); let _ = (s, size); }
                }
                cases += 1;
            }
        }
    }
    assert!(cases > 1500);
}

/// Bounded native enumeration (not a proof) of `BaseLeaf::find_key` - the contract Verus unit v20
/// assumes for it (slice::binary_search_by with a closure) - on the real five-cell leaf: for every
/// cursor position and every probe key (each cell's key, a key just below and just above each, the
/// smallest and the largest key) such that the keys below the cursor are smaller than the probe:
/// None exactly at the end of the node; otherwise (true, index of the key) with the cursor moved past
/// it, or (false, index of the first bigger key) with the cursor on it.
#[cfg(test)]
#[test]
fn native_enum_leaf_find_key_contract() {
    let (_, cells) = native_base_leaf();
    let keys: Vec<Key> = cells.iter().map(|c| c.0).collect();
    let n = keys.len();
    let mut probes: Vec<Key> = vec![[0u8; 32], [0xFF; 32]];
    for k in &keys {
        probes.push(*k);
        let mut below = *k;
        below[30] -= 1;
        probes.push(below);
        let mut above = *k;
        above[31] = 1;
        probes.push(above);
    }
    let mut cases = 0;
    for probe in &probes {
        for low in 0..=n {
            if keys[..low].iter().any(|k| k >= probe) { continue; }
            let (mut base, _) = native_base_leaf();
            base.low = low;
            let r = base.find_key(probe);
            let want_pos = keys.iter().position(|k| k >= probe).unwrap_or(n);
            let want_found = want_pos < n && keys[want_pos] == *probe;
            if low == n {
                assert!(r.is_none() && base.low == low, "find_key at the end of the node returned {:?}", r);
            } else {
                assert!(r == Some((want_found, want_pos)), "BaseLeaf::find_key(low={}) = {:?}, expected ({}, {})", low, r, want_found, want_pos);
                assert!(base.low == if want_found { want_pos + 1 } else { want_pos }, "cursor after find_key");
            }
            cases += 1;
        }
    }
    assert!(cases > 30, "only {} cases", cases);
}

// ---- digest / build_leaf / try_build_leaves: bounded native enumeration ----------------------------
// V20 proves LeafUpdater::digest against ASSUMED contracts of build_leaf ("the node's cells are the
// list's view") and try_build_leaves ("what is emitted plus what stays is what was there"): both use
// iterator adapters / range slicing / drain, outside Verus' subset.  Here they run for real.
#[cfg(test)]
struct NativeRecorder {
    leaves: Vec<(Key, Vec<(Key, Vec<u8>, bool)>, Option<Key>)>,
}
#[cfg(test)]
impl HandleNewLeaf for NativeRecorder {
    fn handle_new_leaf(&mut self, separator: Key, node: LeafNode, cutoff: Option<Key>) -> std::io::Result<()> {
        let cells = (0..node.n())
            .map(|i| {
                let (v, o) = node.value(i);
                (node.key(i), v.to_vec(), o)
            })
            .collect();
        self.leaves.push((separator, cells, cutoff));
        Ok(())
    }
}

/// a five-cell base leaf whose values have `base_len + 60 * i` bytes
#[cfg(test)]
fn native_sized_base_leaf(base_len: usize) -> (BaseLeaf, Vec<(Key, Vec<u8>, bool)>) {
    let pool = PagePool::new();
    let cells: Vec<(Key, Vec<u8>, bool)> = (0..5)
        .map(|i| (native_key(i), vec![0x30 + i as u8; base_len + 60 * i], i % 2 == 1))
        .collect();
    let total: usize = cells.iter().map(|c| c.1.len()).sum();
    let mut b = LeafBuilder::new(&pool, cells.len(), total);
    for (k, v, o) in &cells {
        b.push_cell(*k, v, *o);
    }
    (BaseLeaf::new(Arc::new(b.finish()), [0u8; 32]), cells)
}

/// Bounded native enumeration (not a proof) of the contracts V20 assumes for `build_leaf` and
/// `try_build_leaves`, and of `digest` end to end, on real leaf nodes: three size classes (no split,
/// a split in two, a bulk split), 162 op lists each (the base leaf cut at any subset of its
/// boundaries, Inserts optionally before each segment), with and without a cutoff.  After digest:
///  * the cells of the leaves handed to the consumer, in order, followed by the cells the remaining op
///    list stands for, are exactly the cells the op list stood for (nothing dropped, duplicated,
///    reordered or altered, overflow flags included);
///  * Finished leaves the op list empty; NeedsMerge(c) has c == the cutoff and only Inserts left;
///  * every leaf handed out is non-empty, its separator is <= its first key and > the last key of the
///    leaf before it, the first separator is the base leaf's, and the cutoff passed with a leaf is the
///    next leaf's separator (the updater's cutoff for the last one).
#[cfg(test)]
#[test]
fn native_enum_leaf_digest_conserves_cells() {
    let mut cases = 0;
    let mut multi = 0;
    for (base_len, ins_len) in [(20usize, 9usize), (500, 700), (500, 1300)] {
        let (_, cells) = native_sized_base_leaf(base_len);
        let mut lists = native_op_lists(&cells);
        for ops in lists.iter_mut() {
            for op in ops.iter_mut() {
                if let LeafOp::Insert(_, v, _) = op { *v = vec![0xAB; ins_len + v.len()]; }
            }
        }
        for ops in &lists {
            let want = native_expand(ops, &cells);
            assert!(want.windows(2).all(|w| w[0].0 < w[1].0));
            // build_leaf alone, when everything fits one page
            let n: usize = want.len();
            let vs: usize = want.iter().map(|c| c.1.len()).sum();
            if leaf_node::body_size(n, vs) <= LEAF_NODE_BODY_SIZE {
                let (base, _) = native_sized_base_leaf(base_len);
                let mut u = LeafUpdater::new(PagePool::new(), Some(base), None);
                u.ops = native_clone_ops(ops);
                let node = u.build_leaf(&u.ops);
                let got: Vec<(Key, Vec<u8>, bool)> = (0..node.n()).map(|i| { let (v, o) = node.value(i); (node.key(i), v.to_vec(), o) }).collect();
                assert!(got == want, "build_leaf does not materialise the cells its op list stands for (ops {:?})", ops);
            }
            for cutoff in [None, Some([0xFFu8; 32])] {
                let (mut base, _) = native_sized_base_leaf(base_len);
                base.low = 5;
                let base_separator = base.separator;
                let mut u = LeafUpdater::new(PagePool::new(), Some(base), cutoff);
                u.ops = native_clone_ops(ops);
                u.gauge = LeafGauge { n, value_size_sum: vs };
                let mut rec = NativeRecorder { leaves: Vec::new() };
                let r = u.digest(&mut rec).expect("the recorder never fails");
                let mut got: Vec<(Key, Vec<u8>, bool)> = rec.leaves.iter().flat_map(|l| l.1.iter().cloned()).collect();
                got.extend(native_expand(&u.ops, &cells));
                assert!(got == want, "digest: emitted leaves + remaining ops differ from the cells the op list stood for ({} leaves emitted, {} ops left; sizes {}/{}; cutoff {:?}; ops {:?})", rec.leaves.len(), u.ops.len(), base_len, ins_len, cutoff.is_some(), ops);
                match r {
                    DigestResult::Finished => assert!(u.ops.is_empty(), "Finished with ops left"),
                    DigestResult::NeedsMerge(c) => {
                        assert!(Some(c) == cutoff, "NeedsMerge carries a key that is not the cutoff");
                        assert!(u.ops.iter().all(|o| matches!(o, LeafOp::Insert(..))), "NeedsMerge left a KeepChunk for a base that is about to change");
                        assert!(!u.ops.is_empty() && u.separator_override.is_some());
                    }
                }
                for (i, (sep, lcells, lcut)) in rec.leaves.iter().enumerate() {
                    assert!(!lcells.is_empty(), "an empty leaf was handed out");
                    assert!(*sep <= lcells[0].0, "leaf {}: separator above its first key", i);
                    if i == 0 {
                        assert!(*sep == base_separator, "the first leaf does not keep the base leaf's separator");
                    } else {
                        assert!(*sep > rec.leaves[i - 1].1.last().unwrap().0, "leaf {}: separator not above the previous leaf's last key", i);
                    }
                    let next_sep = rec.leaves.get(i + 1).map(|l| l.0);
                    let expect_cut = match next_sep {
                        Some(s) => Some(s),
                        // the last emitted leaf: followed by the merge remainder (whose separator is the override) or by the cutoff
                        None => if u.ops.is_empty() { cutoff } else { u.separator_override },
                    };
                    assert!(*lcut == expect_cut, "leaf {}: cutoff passed with the leaf is not the next separator", i);
                }
                if rec.leaves.len() > 1 { multi += 1; }
                cases += 1;
            }
        }
    }
    assert!(cases >= 900 && multi > 100, "only {} cases, {} with a split", cases, multi);
}

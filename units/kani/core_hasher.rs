//! Kani twins of the Verus unit v7_hasher: the same contracts checked by CBMC on the compiled
//! functions, loop-free over full-domain symbolic inputs (complete), and the source of concrete
//! counterexamples for replay.
#![allow(unused_imports, dead_code)]
use super::*;

struct AnyHash;
impl BinaryHash for AnyHash {
    // an arbitrary function: every call returns a fresh symbolic value
    fn hash(_input: &[u8]) -> [u8; 32] {
        kani::any()
    }
    fn hash2_32_concat(_l: &[u8; 32], _r: &[u8; 32]) -> [u8; 32] {
        kani::any()
    }
}
type HH = BinaryHasher<AnyHash>;

fn spec_kind(n: &Node) -> NodeKind {
    if n[0] >= 128 {
        NodeKind::Leaf
    } else if n.iter().all(|b| *b == 0) {
        NodeKind::Terminator
    } else {
        NodeKind::Internal
    }
}

#[kani::proof]
#[kani::unwind(34)]
fn node_kind_matches_spec() {
    let n: Node = kani::any();
    assert!(node_kind_by_msb(&n) == spec_kind(&n));
    assert!(HH::node_kind(&n) == spec_kind(&n));
    assert!(node_kind_by_msb(&TERMINATOR) == NodeKind::Terminator);
    kani::cover!(spec_kind(&n) == NodeKind::Internal, "internal reachable");
}

#[kani::proof]
#[kani::unwind(34)]
fn leaf_and_internal_hashes_are_domain_separated() {
    let leaf = LeafData { key_path: kani::any(), value_hash: kani::any() };
    let internal = InternalData { left: kani::any(), right: kani::any() };
    let hl = HH::hash_leaf(&leaf);
    let hi = HH::hash_internal(&internal);
    assert!(HH::node_kind(&hl) == NodeKind::Leaf);
    assert!(HH::node_kind(&hi) != NodeKind::Leaf);
    assert!(hl != hi);
    assert!(hl != TERMINATOR);
    kani::cover!(HH::node_kind(&hi) == NodeKind::Internal, "internal reachable");
}

#[cfg(test)]
include!("/verif/.build/playback/core_hasher.inc");

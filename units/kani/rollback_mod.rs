//! Kani harnesses for nomt/src/rollback/mod.rs (compiled into the real crate only under cfg(kani)).
#![allow(unused_imports, dead_code)]
use super::*;


// ---- the rollback log as a data structure: bounded native enumeration of histories -----------------
// (run by `cargo kani playback`).  Abstract view: a stack of deltas.  `commit` pushes, `truncate(n)`
// pops n (or refuses without changing anything), a sync publishes a live range and prunes, and
// re-reading the log with the published range gives back exactly the stack.  The store uses the log
// strictly as commit -> sync and truncate -> (commit without delta) -> sync, which is the alphabet
// enumerated here.
#[cfg(test)]
fn native_delta(tag: u8) -> Delta {
    let mut priors = HashMap::new();
    let mut k = [0u8; 32];
    k[0] = tag % 3; // keys overlap between deltas so that composition order matters
    priors.insert(k, if tag % 4 == 0 { None } else { Some(vec![tag; 1 + tag as usize % 5]) });
    let mut own = [0xEEu8; 32];
    own[1] = tag;
    priors.insert(own, Some(vec![tag]));
    Delta { priors }
}

/// what rolling back the given deltas (oldest first in the slice) must restore: the OLDEST prior of
/// each key wins
#[cfg(test)]
fn native_traceback(deltas: &[u8]) -> BTreeMap<KeyPath, Option<Vec<u8>>> {
    let mut m = BTreeMap::new();
    for tag in deltas.iter().rev() {
        for (k, v) in native_delta(*tag).priors {
            m.insert(k, v);
        }
    }
    m
}

#[cfg(test)]
fn native_sync(r: &Rollback) -> (u64, u64) {
    let mut c = r.sync();
    let range = c.begin_sync();
    // (the store writes the meta page with `range` here)
    c.post_meta();
    c.wait_post_meta().unwrap();
    range
}

/// Bounded native enumeration (not a proof): every history of 1..=5 steps over {commit + sync,
/// truncate(1) + sync, truncate(2) + sync, truncate(9) (refused)}, with a close-and-reopen (re-read
/// of the segmented log with the live range the last sync published) after any subset of the steps,
/// log length limit 3 (1364 histories x 32 reopen patterns, sampled to those that differ):
///  * [C09] truncate(n) returns None and changes nothing when n exceeds the number of logged
///    deltas; otherwise it returns exactly the composition of the n newest deltas (the oldest prior
///    of each key wins) and the log shrinks by n;
///  * [C09/C10] after every sync and after every reopen the log holds exactly the model's stack
///    (never more than the limit after a sync), so rolling back k then m equals rolling back k + m,
///    and no history makes the log unreadable.
#[cfg(test)]
#[test]
fn native_enum_rollback_log_histories() {
    const MAX_LEN: u32 = 3;
    let mut histories = 0u64;
    for len in 1..=5usize {
        let mut steps = vec![0u8; len];
        loop {
            for reopen_mask in [0u32, 0b11111, 0b01010, 0b10101, 1 << (len - 1)] {
                let dir = tempfile::tempdir().unwrap();
                let dir_fd = Arc::new(std::fs::File::open(dir.path()).unwrap());
                let mut r = Rollback::read(MAX_LEN, dir.path().to_path_buf(), dir_fd.clone(), 0, 0).unwrap();
                let mut model: Vec<u8> = Vec::new();
                // what a re-read with the last published live range gives back.  The published start
                // is the start from BEFORE this sync's pruning of the oldest delta (the crate's own
                // unit test `rollback::tests` pins this: start 1 is published while pruning to 2),
                // so a reopen sees the delta the last sync dropped from memory once more.
                let mut reread: Vec<u8> = Vec::new();
                let mut next_tag = 1u8;
                let mut range = (0u64, 0u64);
                let what = format!("steps {:?} (0 = commit, 1 = truncate 1, 2 = truncate 2, 3 = truncate 9), reopen mask {:#b}", steps, reopen_mask);
                for (i, st) in steps.iter().enumerate() {
                    match st {
                        0 => {
                            r.commit(native_delta(next_tag)).unwrap();
                            model.push(next_tag);
                            next_tag += 1;
                            range = native_sync(&r);
                            reread = model.clone();
                            if model.len() > MAX_LEN as usize {
                                model.remove(0);
                            }
                            // (one delta is pruned per sync, so after a reopen the log stays one over the limit)
                            assert!(model.len() <= MAX_LEN as usize + 1, "more than limit + 1 deltas kept after a sync ({})", what);
                        }
                        3 => {
                            let before = r.shared.in_memory.lock().total_len();
                            assert!(r.truncate(9).unwrap().is_none(), "truncate(9) served with {} deltas logged ({})", before, what);
                            assert!(r.shared.in_memory.lock().total_len() == before && r.shared.in_memory.lock().pending_truncate.is_none(), "a refused truncate changed the log ({})", what);
                        }
                        n => {
                            let n = *n as usize;
                            let got = r.truncate(n).unwrap();
                            if n > model.len() {
                                assert!(got.is_none(), "truncate({}) served with only {} deltas ({})", n, model.len(), what);
                                assert!(r.shared.in_memory.lock().pending_truncate.is_none(), "a refused truncate left a pending truncation ({})", what);
                            } else {
                                let want = native_traceback(&model[model.len() - n..]);
                                assert!(got.as_ref() == Some(&want), "truncate({}) returned a wrong traceback ({})", n, what);
                                model.truncate(model.len() - n);
                                range = native_sync(&r);
                                reread = model.clone();
                            }
                        }
                    }
                    assert!(r.shared.in_memory.lock().total_len() == model.len(), "the log holds {} deltas, the model {} after step {} ({})", r.shared.in_memory.lock().total_len(), model.len(), i, what);
                    if reopen_mask & (1 << i) != 0 {
                        drop(r);
                        r = Rollback::read(MAX_LEN, dir.path().to_path_buf(), dir_fd.clone(), range.0, range.1)
                            .unwrap_or_else(|e| panic!("the rollback log cannot be re-read with the published live range {:?}: {} ({})", range, e, what));
                        model = reread.clone();
                        assert!(model.len() <= MAX_LEN as usize + 2);
                        assert!(r.shared.in_memory.lock().total_len() == model.len(), "after reopen with live range {:?} the log holds {} deltas, the model {} ({})", range, r.shared.in_memory.lock().total_len(), model.len(), what);
                    }
                }
                // final: everything that is left rolls back to the composition of the model's stack
                if !model.is_empty() {
                    assert!(r.truncate(model.len() + 1).unwrap().is_none(), "more deltas than the model at the end ({})", what);
                    let got = r.truncate(model.len()).unwrap();
                    assert!(got == Some(native_traceback(&model)), "rolling back everything restores other values than the model ({})", what);
                }
                histories += 1;
            }
            let mut k = 0;
            while k < len {
                steps[k] += 1;
                if steps[k] < 4 { break; }
                steps[k] = 0;
                k += 1;
            }
            if k == len { break; }
        }
    }
    assert!(histories >= 1364 * 5);
}

#[cfg(test)]
include!("/verif/.build/playback/rollback_mod.inc");

//! Kani harnesses for nomt/src/rollback/mod.rs (compiled into the real crate only under cfg(kani)).
#![allow(unused_imports, dead_code)]
use super::*;


// ---- the rollback log as a data structure: bounded native enumeration of histories -----------------
// (run by `cargo kani playback`).  Abstract view: a stack of deltas.  `commit` pushes, `truncate(n)`
// pops n (or refuses without changing anything), a sync publishes a live range and prunes, and
// re-reading the log with the published range gives back exactly the stack.  The store uses the log
// strictly as commit -> sync and truncate -> (commit without delta) -> sync, which is the alphabet
// enumerated here.
#[cfg(test)]
fn native_delta(tag: u8) -> Delta {
    let mut priors = HashMap::new();
    let mut k = [0u8; 32];
    k[0] = tag % 3; // keys overlap between deltas so that composition order matters
    priors.insert(k, if tag % 4 == 0 { None } else { Some(vec![tag; 1 + tag as usize % 5]) });
    let mut own = [0xEEu8; 32];
    own[1] = tag;
    priors.insert(own, Some(vec![tag]));
    Delta { priors }
}

/// what rolling back the given deltas (oldest first in the slice) must restore: the OLDEST prior of
/// each key wins
#[cfg(test)]
fn native_traceback(deltas: &[u8]) -> BTreeMap<KeyPath, Option<Vec<u8>>> {
    let mut m = BTreeMap::new();
    for tag in deltas.iter().rev() {
        for (k, v) in native_delta(*tag).priors {
            m.insert(k, v);
        }
    }
    m
}

#[cfg(test)]
fn native_sync(r: &Rollback) -> (u64, u64) {
    let mut c = r.sync();
    let range = c.begin_sync();
    // (the store writes the meta page with `range` here)
    c.post_meta();
    c.wait_post_meta().unwrap();
    range
}

/// The log as the implementation keeps it, in the abstract: the running handle's stack of (record id,
/// delta), the live range the segmented log tracks, and which record ids are physically in the
/// segment file.  Two deliberate laxities of the crate are part of this model and are NOT judged:
/// a sync publishes the live-range start from before its own pruning of the oldest delta (pinned by
/// the crate's unit test in rollback/tests.rs), and pruning the oldest delta does not remove it from
/// the segment file, so a reopen can see one pruned delta more than the running handle did.  What IS
/// judged: truncate's result and refusal, that the stack always equals what the real log holds, that
/// every published range re-opens, and that the log stays usable.
#[cfg(test)]
struct NativeLogModel {
    mem: Vec<(u64, u8)>,
    start: u64,
    end: u64,
    phys: BTreeMap<u64, u8>,
    published: (u64, u64),
    max_len: usize,
}

#[cfg(test)]
impl NativeLogModel {
    fn new(max_len: usize) -> Self {
        NativeLogModel { mem: Vec::new(), start: 0, end: 0, phys: BTreeMap::new(), published: (0, 0), max_len }
    }
    fn commit_and_sync(&mut self, tag: u8) {
        let id = self.end + 1;
        self.phys.insert(id, tag);
        if self.start == 0 { self.start = id; }
        self.end = id;
        self.mem.push((id, tag));
        self.published = (self.start, self.end);
        if self.mem.len() > self.max_len {
            let (oldest, _) = self.mem.remove(0);
            self.start = oldest + 1;
        }
    }
    /// the tags of the n newest deltas, oldest first, or None when the request cannot be served
    fn truncate_and_sync(&mut self, n: usize) -> Option<Vec<u8>> {
        if n > self.mem.len() { return None; }
        let popped: Vec<(u64, u8)> = self.mem.split_off(self.mem.len() - n);
        let new_end = popped[0].0 - 1;
        if new_end == 0 {
            self.published = (0, 0);
            self.start = 0;
            self.end = 0;
            self.phys.clear();
        } else {
            self.published = (std::cmp::min(self.start, new_end), new_end);
            self.phys.retain(|id, _| *id <= new_end);
            self.end = new_end;
        }
        Some(popped.iter().map(|(_, t)| *t).collect())
    }
    fn reopen(&mut self) {
        let (s, e) = self.published;
        self.phys.retain(|id, _| *id <= e);
        self.mem = self.phys.iter().filter(|(id, _)| **id >= s && **id <= e && s != 0).map(|(id, t)| (*id, *t)).collect();
        self.start = s;
        self.end = e;
    }
    fn tags(&self) -> Vec<u8> { self.mem.iter().map(|(_, t)| *t).collect() }
}

#[cfg(test)]
fn native_reopen(dir: &std::path::Path, dir_fd: &Arc<std::fs::File>, m: &NativeLogModel, max_len: u32, what: &str) -> Rollback {
    let r = Rollback::read(max_len, dir.to_path_buf(), dir_fd.clone(), m.published.0, m.published.1)
        .unwrap_or_else(|e| panic!("the rollback log cannot be re-read with the published live range {:?}: {} ({})", m.published, e, what));
    assert!(r.shared.in_memory.lock().total_len() == m.mem.len(), "after reopen with live range {:?} the log holds {} deltas, the model {} ({})", m.published, r.shared.in_memory.lock().total_len(), m.mem.len(), what);
    r
}

/// Bounded native enumeration (not a proof): (a) every history of 1..=5 steps over {commit + sync,
/// truncate(1) + sync, truncate(2) + sync, truncate(9) (refused)}, five close-and-reopen patterns
/// each; (b) 1..=7 commits (so that the log is pruned) followed by truncates of 1..=3 deltas in every
/// composition until nothing is left, with a reopen after every step / only at the end / never; log
/// length limit 3; deltas with overlapping keys.  Against the model above:
///  * [C09] truncate(n) returns None and changes nothing (no pending truncation) when n exceeds the
///    number of logged deltas; otherwise it returns exactly the composition of the n newest deltas
///    (the oldest prior of each key wins) and the log shrinks by n;
///  * [C09/C10] after every sync the real log holds the model's stack; re-reading the log with the
///    live range the last sync published SUCCEEDS after every history (no sequence of commits and
///    rollbacks makes the log unreadable) and yields the model's stack; a log that was rolled back
///    completely accepts and re-reads further commits.
#[cfg(test)]
#[test]
fn native_enum_rollback_log_histories() {
    const MAX_LEN: u32 = 3;
    let check_len = |r: &Rollback, m: &NativeLogModel, what: &str| {
        assert!(r.shared.in_memory.lock().total_len() == m.mem.len(), "the log holds {} deltas, the model {} ({})", r.shared.in_memory.lock().total_len(), m.mem.len(), what);
    };
    let mut histories = 0u64;
    for len in 1..=5usize {
        let mut steps = vec![0u8; len];
        loop {
            for reopen_mask in [0u32, 0b11111, 0b01010, 0b10101, 1 << (len - 1)] {
                let dir = tempfile::tempdir().unwrap();
                let dir_fd = Arc::new(std::fs::File::open(dir.path()).unwrap());
                let mut r = Rollback::read(MAX_LEN, dir.path().to_path_buf(), dir_fd.clone(), 0, 0).unwrap();
                let mut m = NativeLogModel::new(MAX_LEN as usize);
                let mut next_tag = 1u8;
                let what = format!("steps {:?} (0 = commit, 1 = truncate 1, 2 = truncate 2, 3 = truncate 9), reopen mask {:#b}", steps, reopen_mask);
                for (i, st) in steps.iter().enumerate() {
                    match st {
                        0 => {
                            r.commit(native_delta(next_tag)).unwrap();
                            let range = native_sync(&r);
                            m.commit_and_sync(next_tag);
                            assert!(range == m.published, "published live range {:?}, the model's {:?} ({})", range, m.published, what);
                            next_tag += 1;
                        }
                        3 => {
                            let before = r.shared.in_memory.lock().total_len();
                            assert!(r.truncate(9).unwrap().is_none(), "truncate(9) served with {} deltas logged ({})", before, what);
                            assert!(r.shared.in_memory.lock().total_len() == before && r.shared.in_memory.lock().pending_truncate.is_none(), "a refused truncate changed the log ({})", what);
                        }
                        n => {
                            let n = *n as usize;
                            let got = r.truncate(n).unwrap();
                            match m.truncate_and_sync(n) {
                                None => {
                                    assert!(got.is_none(), "truncate({}) served with only {} deltas ({})", n, m.mem.len(), what);
                                    assert!(r.shared.in_memory.lock().pending_truncate.is_none(), "a refused truncate left a pending truncation ({})", what);
                                }
                                Some(tags) => {
                                    assert!(got.as_ref() == Some(&native_traceback(&tags)), "truncate({}) returned a wrong traceback ({})", n, what);
                                    let range = native_sync(&r);
                                    assert!(range == m.published, "published live range {:?}, the model's {:?} ({})", range, m.published, what);
                                }
                            }
                        }
                    }
                    check_len(&r, &m, &format!("after step {}, {}", i, what));
                    if reopen_mask & (1 << i) != 0 {
                        drop(r);
                        m.reopen();
                        r = native_reopen(dir.path(), &dir_fd, &m, MAX_LEN, &what);
                    }
                }
                // final: everything that is left rolls back to the composition of the model's stack
                if !m.mem.is_empty() {
                    assert!(r.truncate(m.mem.len() + 1).unwrap().is_none(), "more deltas than the model at the end ({})", what);
                    let got = r.truncate(m.mem.len()).unwrap();
                    assert!(got == Some(native_traceback(&m.tags())), "rolling back everything restores other values than the model ({})", what);
                }
                histories += 1;
            }
            let mut k = 0;
            while k < len {
                steps[k] += 1;
                if steps[k] < 4 { break; }
                steps[k] = 0;
                k += 1;
            }
            if k == len { break; }
        }
    }
    assert!(histories >= 1364 * 5);

    fn compositions(total: usize, acc: &mut Vec<usize>, out: &mut Vec<Vec<usize>>) {
        if total == 0 { out.push(acc.clone()); return; }
        for part in 1..=std::cmp::min(3, total) {
            acc.push(part);
            compositions(total - part, acc, out);
            acc.pop();
        }
    }
    let mut drained = 0u64;
    for commits in 1..=7usize {
        let mut comps = Vec::new();
        compositions(std::cmp::min(commits, MAX_LEN as usize), &mut Vec::new(), &mut comps);
        for comp in &comps {
            for reopen_mode in 0..3u8 {
                let dir = tempfile::tempdir().unwrap();
                let dir_fd = Arc::new(std::fs::File::open(dir.path()).unwrap());
                let mut r = Rollback::read(MAX_LEN, dir.path().to_path_buf(), dir_fd.clone(), 0, 0).unwrap();
                let mut m = NativeLogModel::new(MAX_LEN as usize);
                let what = format!("{} commits, then truncates {:?}, reopen mode {}", commits, comp, reopen_mode);
                for tag in 1..=commits as u8 {
                    r.commit(native_delta(tag)).unwrap();
                    native_sync(&r);
                    m.commit_and_sync(tag);
                }
                for n in comp {
                    let got = r.truncate(*n).unwrap();
                    let tags = m.truncate_and_sync(*n).unwrap();
                    assert!(got == Some(native_traceback(&tags)), "truncate({}) returned a wrong traceback ({})", n, what);
                    let range = native_sync(&r);
                    assert!(range == m.published, "published live range {:?}, the model's {:?} ({})", range, m.published, what);
                    check_len(&r, &m, &what);
                    if reopen_mode == 1 {
                        drop(r);
                        m.reopen();
                        r = native_reopen(dir.path(), &dir_fd, &m, MAX_LEN, &what);
                    }
                }
                if reopen_mode == 2 {
                    drop(r);
                    m.reopen();
                    r = native_reopen(dir.path(), &dir_fd, &m, MAX_LEN, &what);
                }
                // the log is usable again: a further commit is logged and re-read
                r.commit(native_delta(99)).unwrap();
                native_sync(&r);
                m.commit_and_sync(99);
                check_len(&r, &m, &what);
                drop(r);
                m.reopen();
                let r2 = native_reopen(dir.path(), &dir_fd, &m, MAX_LEN, &format!("{}, after a further commit", what));
                let top = r2.truncate(1).unwrap();
                assert!(top == Some(native_traceback(&[99])), "the newest delta after a reopen is not the last commit's ({})", what);
                drained += 1;
            }
        }
    }
    assert!(drained >= 60);
}

#[cfg(test)]
include!("/verif/.build/playback/rollback_mod.inc");

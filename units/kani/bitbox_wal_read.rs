//! Kani harnesses for nomt/src/bitbox/wal/read.rs (compiled into the real crate only under cfg(kani)).
#![allow(unused_imports, dead_code)]
use super::*;

/// A reader over an in-memory WAL image whose methods are stubbed by the harness that uses it
/// (bitbox::verif_kani::recover_*): only `sync_seqn` is read from the value itself.
pub(crate) fn kani_reader(sync_seqn: u32) -> WalBlobReader {
    WalBlobReader { wal: Vec::new(), offset: 0, sync_seqn }
}

#[cfg(test)]
include!("/verif/.build/playback/bitbox_wal_read.inc");

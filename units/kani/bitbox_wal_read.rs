//! Kani harnesses for nomt/src/bitbox/wal/read.rs (compiled into the real crate only under cfg(kani)).
#![allow(unused_imports, dead_code)]
use super::*;

#[cfg(test)]
include!("/verif/.build/playback/bitbox_wal_read.inc");

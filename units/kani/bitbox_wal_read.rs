//! Kani harnesses for nomt/src/bitbox/wal/read.rs (compiled into the real crate only under cfg(kani)).
#![allow(unused_imports, dead_code)]
use super::*;

/// A reader over an in-memory WAL image whose methods are stubbed by the harness that uses it
/// (bitbox::verif_kani::recover_*): only `sync_seqn` is read from the value itself.
pub(crate) fn kani_reader(sync_seqn: u32) -> WalBlobReader {
    WalBlobReader { wal: Vec::new(), offset: 0, sync_seqn }
}

/// A reader over a finished blob (what WalBlobReader::new builds after reading the file).
pub(crate) fn kani_reader_over(wal: Vec<u8>) -> WalBlobReader {
    let mut r = WalBlobReader { wal, offset: 0, sync_seqn: 0 };
    r.read_start().unwrap();
    r
}
pub(crate) fn kani_reader_offset(r: &WalBlobReader) -> usize {
    r.offset
}

#[cfg(test)]
include!("/verif/.build/playback/bitbox_wal_read.inc");

//! Constructors for symbolic TriePosition values (fields are private to this module's parent).
#![allow(unused_imports, dead_code)]
use super::*;

/// Any TriePosition constructible through the public API: depth 0..=256, arbitrary path bits.
/// (`node_index` is not read by the proof code; it is left symbolic.)
pub(crate) fn any_trie_pos() -> TriePosition {
    let depth: u16 = kani::any();
    kani::assume(depth <= 256);
    TriePosition {
        path: kani::any(),
        depth,
        node_index: kani::any(),
    }
}

/// TriePosition with a concrete depth (keeps bit-slice lengths concrete for CBMC).
pub(crate) fn trie_pos_with_depth(depth: u16) -> TriePosition {
    TriePosition {
        path: kani::any(),
        depth,
        node_index: kani::any(),
    }
}

#[cfg(test)]
include!("/verif/.build/playback/core_trie_pos.inc");

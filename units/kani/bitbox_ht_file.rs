//! Kani harnesses for nomt/src/bitbox/ht_file.rs (compiled into the real crate only under cfg(kani)).
#![allow(unused_imports, dead_code)]
use super::*;

/// offsets of a hash-table file with `meta_pages` meta-byte pages (for harnesses of bitbox::recover)
pub(crate) fn kani_offsets(meta_pages: u64) -> HTOffsets {
    HTOffsets { data_page_offset: meta_pages }
}

#[cfg(test)]
include!("/verif/.build/playback/bitbox_ht_file.inc");

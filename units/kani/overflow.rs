//! K2/K5 (overflow): sizing contract twin of Verus unit v5 and the overflow cell codec.
#![allow(unused_imports, dead_code)]
use super::*;

fn load(v: usize, p: usize) -> usize {
    v + 4 * p.saturating_sub(MAX_OVERFLOW_CELL_NODE_POINTERS)
}

/// total_needed_pages against the page-format contract, for every value size 1..=2^29.
/// Loop-free over the full domain: complete.
#[kani::proof]
fn total_needed_pages_contract() {
    let v: usize = kani::any();
    kani::assume(v >= 1 && v <= MAX_OVERFLOW_VALUE_SIZE);
    let p = total_needed_pages(v);
    assert!(p >= 1);
    assert!(p * BODY_SIZE >= load(v, p));
    assert!((p - 1) * BODY_SIZE < load(v, p));
    kani::cover!(p > MAX_OVERFLOW_CELL_NODE_POINTERS + 1, "values needing in-page pointers reachable");
}

/// decode_cell(encode_cell(size, hash, pages)) == (size, hash, pages) for a concrete number n of
/// page numbers (one harness per n in 1..=15 = MAX_OVERFLOW_CELL_NODE_POINTERS, the format's bound).
fn cell_roundtrip(n: usize) {
    let size: usize = kani::any();
    kani::assume(size <= MAX_OVERFLOW_VALUE_SIZE);
    let hash: [u8; 32] = kani::any();
    let pns: [u32; 15] = kani::any();
    let mut pages = Vec::with_capacity(n);
    let mut i = 0;
    while i < n {
        pages.push(PageNumber(pns[i]));
        i += 1;
    }
    let cell = encode_cell(size, hash, &pages);
    assert!(cell.len() == 8 + 32 + 4 * n);
    let (s2, h2, it) = decode_cell(&cell);
    assert!(s2 == size);
    assert!(h2 == hash);
    let mut k = 0;
    for pn in it {
        assert!(k < n);
        assert!(pn.0 == pns[k]);
        k += 1;
    }
    assert!(k == n);
    kani::cover!(k == n, "reachable");
}

macro_rules! cell_harness {
    ($name:ident, $n:expr) => {
        #[kani::proof]
        #[kani::unwind(17)]
        fn $name() {
            cell_roundtrip($n);
        }
    };
}
cell_harness!(overflow_cell_roundtrip_1, 1);
cell_harness!(overflow_cell_roundtrip_2, 2);
cell_harness!(overflow_cell_roundtrip_3, 3);
cell_harness!(overflow_cell_roundtrip_4, 4);
cell_harness!(overflow_cell_roundtrip_5, 5);
cell_harness!(overflow_cell_roundtrip_6, 6);
cell_harness!(overflow_cell_roundtrip_7, 7);
cell_harness!(overflow_cell_roundtrip_8, 8);
cell_harness!(overflow_cell_roundtrip_9, 9);
cell_harness!(overflow_cell_roundtrip_10, 10);
cell_harness!(overflow_cell_roundtrip_11, 11);
cell_harness!(overflow_cell_roundtrip_12, 12);
cell_harness!(overflow_cell_roundtrip_13, 13);
cell_harness!(overflow_cell_roundtrip_14, 14);
cell_harness!(overflow_cell_roundtrip_15, 15);

#[cfg(test)]
include!("/verif/.build/playback/overflow.inc");

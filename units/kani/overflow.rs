//! K2/K5 (overflow): sizing contract twin of Verus unit v5 and the overflow cell codec.
#![allow(unused_imports, dead_code)]
use super::*;

fn load(v: usize, p: usize) -> usize {
    v + 4 * p.saturating_sub(MAX_OVERFLOW_CELL_NODE_POINTERS)
}

/// total_needed_pages against the page-format contract, for every value size 1..=2^29.
/// Loop-free over the full domain: complete.
#[kani::proof]
fn total_needed_pages_contract() {
    let v: usize = kani::any();
    kani::assume(v >= 1 && v <= MAX_OVERFLOW_VALUE_SIZE);
    let p = total_needed_pages(v);
    assert!(p >= 1);
    assert!(p * BODY_SIZE >= load(v, p));
    assert!((p - 1) * BODY_SIZE < load(v, p));
    kani::cover!(p > MAX_OVERFLOW_CELL_NODE_POINTERS + 1, "values needing in-page pointers reachable");
}

/// decode_cell(encode_cell(size, hash, pages)) == (size, hash, pages) for a concrete number n of
/// page numbers (one harness per n in 1..=15 = MAX_OVERFLOW_CELL_NODE_POINTERS, the format's bound).
fn cell_roundtrip(n: usize) {
    let size: usize = kani::any();
    kani::assume(size <= MAX_OVERFLOW_VALUE_SIZE);
    let hash: [u8; 32] = kani::any();
    let pns: [u32; 15] = kani::any();
    let mut pages = Vec::with_capacity(n);
    let mut i = 0;
    while i < n {
        pages.push(PageNumber(pns[i]));
        i += 1;
    }
    let cell = encode_cell(size, hash, &pages);
    assert!(cell.len() == 8 + 32 + 4 * n);
    let (s2, h2, it) = decode_cell(&cell);
    assert!(s2 == size);
    assert!(h2 == hash);
    let mut k = 0;
    for pn in it {
        assert!(k < n);
        assert!(pn.0 == pns[k]);
        k += 1;
    }
    assert!(k == n);
    kani::cover!(k == n, "reachable");
}

macro_rules! cell_harness {
    ($name:ident, $n:expr) => {
        #[kani::proof]
        #[kani::unwind(17)]
        fn $name() {
            cell_roundtrip($n);
        }
    };
}
cell_harness!(overflow_cell_roundtrip_1, 1);
cell_harness!(overflow_cell_roundtrip_2, 2);
cell_harness!(overflow_cell_roundtrip_3, 3);
cell_harness!(overflow_cell_roundtrip_4, 4);
cell_harness!(overflow_cell_roundtrip_5, 5);
cell_harness!(overflow_cell_roundtrip_6, 6);
cell_harness!(overflow_cell_roundtrip_7, 7);
cell_harness!(overflow_cell_roundtrip_8, 8);
cell_harness!(overflow_cell_roundtrip_9, 9);
cell_harness!(overflow_cell_roundtrip_10, 10);
cell_harness!(overflow_cell_roundtrip_11, 11);
cell_harness!(overflow_cell_roundtrip_12, 12);
cell_harness!(overflow_cell_roundtrip_13, 13);
cell_harness!(overflow_cell_roundtrip_14, 14);
cell_harness!(overflow_cell_roundtrip_15, 15);

// ---- overflow::delete ----------------------------------------------------------------------------
static mut QUERIED: [u32; 4] = [0; 4];
static mut NQ: usize = 0;
static mut PAGE_NPNS: u16 = 0;
static mut PAGE_NBYTES: u16 = 0;

/// StoreReader::query stub: logs the page number asked for and returns a page whose header says
/// `PAGE_NPNS` page numbers (all = 777) and `PAGE_NBYTES` value bytes.
fn stub_query(_r: &StoreReader, pn: PageNumber) -> FatPage {
    unsafe {
        assert!(NQ < 4);
        QUERIED[NQ] = pn.0;
        NQ += 1;
    }
    let pool = crate::io::page_pool::verif_kani::kani_page_pool();
    let mut page = crate::io::page_pool::verif_kani::kani_fat_page(&pool);
    std::mem::forget(pool);
    let (np, nb) = unsafe { (PAGE_NPNS, PAGE_NBYTES) };
    page[0..2].copy_from_slice(&np.to_le_bytes());
    page[2..4].copy_from_slice(&nb.to_le_bytes());
    let mut i = 0;
    while i < np as usize {
        page[4 + 4 * i..8 + 4 * i].copy_from_slice(&777u32.to_le_bytes());
        i += 1;
    }
    page
}

/// overflow::delete for a value of 2 pages (both page numbers in the cell; the first page read
/// carries value bytes, so the scan stops there), appended to a free list that already holds one
/// symbolic entry: (frame) the existing entry is untouched, (what is freed) exactly the cell's two
/// pages are appended, (which page is read) the page queried is the cell's first page - never an
/// older entry of the shared `freed` vector.  Bounded: 2-page value, 1 prior entry.
#[kani::proof]
#[kani::unwind(6)]
#[kani::stub(crate::beatree::allocator::StoreReader::query, stub_query)]
#[kani::stub(crate::io::page_pool::PagePool::dealloc, crate::io::page_pool::verif_kani::stub_dealloc)]
fn overflow_delete_frees_exactly_its_pages() {
    let prior: u32 = kani::any();
    let p0: u32 = kani::any();
    let p1: u32 = kani::any();
    kani::assume(prior != p0 && prior != p1 && p0 != p1);
    let value_size: usize = BODY_SIZE + 1; // needs exactly 2 pages
    let cell = encode_cell(value_size, [3u8; 32], &[PageNumber(p0), PageNumber(p1)]);
    let mut freed: Vec<PageNumber> = Vec::with_capacity(4);
    freed.push(PageNumber(prior));
    unsafe {
        PAGE_NPNS = 0;
        PAGE_NBYTES = 100;
    }
    // `query` is stubbed and ignores its receiver; the reader is never dereferenced
    let slot: Box<std::mem::MaybeUninit<StoreReader>> = Box::new(std::mem::MaybeUninit::uninit());
    let reader: &StoreReader = unsafe { &*slot.as_ptr() };
    delete(&cell, reader, &mut freed);
    assert!(freed.len() == 3);
    assert!(freed[0].0 == prior);
    assert!(freed[1].0 == p0 && freed[2].0 == p1);
    let (nq, q0) = unsafe { (NQ, QUERIED[0]) };
    assert!(nq == 1);
    assert!(q0 == p0, "delete read a page that does not belong to this value");
    kani::cover!(true, "reachable");
    std::mem::forget(slot);
}

#[cfg(test)]
include!("/verif/.build/playback/overflow.inc");

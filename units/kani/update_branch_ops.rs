//! Kani harnesses for nomt/src/beatree/ops/update/branch_ops.rs (compiled into the real crate only under cfg(kani)).
#![allow(unused_imports, dead_code)]
use super::*;

#[cfg(test)]
include!("/verif/.build/playback/update_branch_ops.inc");

// ---- BranchOpsTracker::push_chunk: bounded native enumeration -------------------------------------
// (run by `cargo kani playback`; the unbounded statement is the Verus unit v19_branch_ops)
#[cfg(test)]
pub(crate) fn native_key(prefix_byte: u8, i: usize) -> Key {
    let mut k = [0u8; 32];
    for x in k.iter_mut().take(8) {
        *x = prefix_byte;
    }
    k[8..10].copy_from_slice(&((i as u16 + 1) << 4).to_be_bytes());
    k
}

/// a base node of `n` separators of which the first `pc` are prefix-compressed
#[cfg(test)]
pub(crate) fn native_base(n: usize, pc: usize) -> BaseBranch {
    use crate::beatree::branch::{BranchNode, BranchNodeBuilder};
    let pool = crate::io::PagePool::new();
    let keys: Vec<Key> = (0..n).map(|i| native_key(if i < pc { 0x11 } else { 0xEE }, i)).collect();
    let prefix_len = if pc == 1 { separator_len(&keys[0]) } else { crate::beatree::ops::bit_ops::prefix_len(&keys[0], &keys[pc - 1]) };
    let mut builder = BranchNodeBuilder::new(BranchNode::new_in(&pool), n, pc, prefix_len);
    for (i, k) in keys.iter().enumerate() {
        builder.push(*k, separator_len(k), 100 + i as u32);
    }
    BaseBranch::new(std::sync::Arc::new(builder.finish()))
}

/// the tracker's op list (a private field; this module is a child of branch_ops)
#[cfg(test)]
pub(crate) fn native_ops_of(t: &BranchOpsTracker) -> &[BranchOp] {
    &t.ops
}

/// the (separator, page number) pairs an op list stands for
#[cfg(test)]
pub(crate) fn native_expand(base: &BaseBranch, ops: &[BranchOp]) -> Vec<(Key, u32)> {
    let mut out = Vec::new();
    for op in ops {
        match op {
            BranchOp::Insert(k, pn) => out.push((*k, pn.0)),
            BranchOp::Update(pos, pn) => out.push((base.key(*pos), pn.0)),
            BranchOp::KeepChunk(c) => {
                assert!(c.start < c.end, "empty or inverted KeepChunk {:?}", c);
                assert!(c.end <= base.node.prefix_compressed() as usize, "KeepChunk covers uncompressed separators {:?}", c);
                for i in c.start..c.end {
                    let (k, pn) = base.key_value(i);
                    out.push((k, pn.0));
                }
            }
        }
    }
    out
}

/// Bounded native enumeration (not a proof): every base node of 1..=7 separators, every split into
/// compressed head / uncompressed tail, every range start < end <= n: `push_chunk(base, start, end)`
/// appends ops that stand for exactly the base entries start..end, once each, in order, and every
/// KeepChunk is non-empty and inside the compressed part.
#[cfg(test)]
#[test]
fn native_enum_push_chunk_covers_exactly_the_range() {
    let mut cases = 0;
    for n in 1..=7usize {
        for pc in 1..=n {
            let base = native_base(n, pc);
            assert_eq!(base.node.prefix_compressed() as usize, pc);
            for start in 0..n {
                for end in start + 1..=n {
                    let r = std::panic::catch_unwind(std::panic::AssertUnwindSafe(|| {
                        let mut t = BranchOpsTracker::new();
                        t.push_chunk(&base, start, end);
                        native_expand(&base, &t.ops)
                    }));
                    let want: Vec<(Key, u32)> = (start..end).map(|i| { let (k, pn) = base.key_value(i); (k, pn.0) }).collect();
                    match r {
                        Ok(got) => assert!(got == want, "push_chunk(n={}, compressed={}, {}..{}) stands for {} entries, expected {}", n, pc, start, end, got.len(), want.len()),
                        Err(_) => panic!("push_chunk(n={}, compressed={}, {}..{}) panicked", n, pc, start, end),
                    }
                    cases += 1;
                }
            }
        }
    }
    assert!(cases > 400);
}

/// every op list made of the base node's compressed head cut at any subset of its inner boundaries
/// (KeepChunks), with the uncompressed tail as Inserts, and an Update replacing a kept separator
#[cfg(test)]
fn native_branch_op_lists(base: &BaseBranch) -> Vec<Vec<BranchOp>> {
    let pc = base.node.prefix_compressed() as usize;
    let n = base.node.n() as usize;
    let chunk = |s: usize, e: usize| {
        BranchOp::KeepChunk(KeepChunk {
            start: s,
            end: e,
            sum_separator_lengths: node::uncompressed_separator_range_size(
                base.node.prefix_len() as usize,
                base.node.separator_range_len(s, e),
                e - s,
                separator_len(&base.key(s)),
            ),
        })
    };
    let mut lists = Vec::new();
    for cuts in 0u32..(1 << (pc - 1)) {
        let mut bounds = vec![0usize];
        for c in 0..pc - 1 {
            if cuts & (1 << c) != 0 { bounds.push(c + 1); }
        }
        bounds.push(pc);
        for upd in 0..=bounds.len() - 1 {
            let mut ops = Vec::new();
            for s in 0..bounds.len() - 1 {
                if upd == s + 1 && bounds[s + 1] - bounds[s] >= 2 {
                    // the first separator of this segment gets a new page number
                    ops.push(BranchOp::Update(bounds[s], PageNumber(900 + s as u32)));
                    ops.push(chunk(bounds[s] + 1, bounds[s + 1]));
                } else {
                    ops.push(chunk(bounds[s], bounds[s + 1]));
                }
            }
            for i in pc..n {
                let (k, pn) = base.key_value(i);
                ops.push(BranchOp::Insert(k, pn));
            }
            lists.push(ops);
        }
    }
    lists
}

#[cfg(test)]
fn native_clone_branch_ops(ops: &[BranchOp]) -> Vec<BranchOp> {
    ops.iter()
        .map(|o| match o {
            BranchOp::Insert(k, pn) => BranchOp::Insert(*k, *pn),
            BranchOp::Update(p, pn) => BranchOp::Update(*p, *pn),
            BranchOp::KeepChunk(c) => BranchOp::KeepChunk(*c),
        })
        .collect()
}

/// Bounded native enumeration (not a proof): on real branch nodes of 5 and 6 separators (fully
/// compressed, and with an uncompressed tail), over every op list of the shape above, each rewrite
/// keeps the sequence of (separator, page number) entries the list stands for:
///  * BranchOpsTracker::replace_with_insert at every op (the contract V19 assumes),
///  * BranchOpsTracker::prepare_merge_ops,
///  * BranchOpsTracker::extract_insert_from_keep_chunk at every chunk,
///  * BranchOpsTracker::try_split_keep_chunk at every chunk for several targets.
#[cfg(test)]
#[test]
fn native_enum_branch_op_rewrites_preserve_view() {
    let mut cases = 0;
    for (n, pc) in [(5usize, 5usize), (6, 4), (6, 6), (4, 2)] {
        let base = native_base(n, pc);
        for ops in native_branch_op_lists(&base) {
            let want = native_expand(&base, &ops);
            let fresh = |ops: &[BranchOp]| {
                let mut t = BranchOpsTracker::new();
                t.ops = native_clone_branch_ops(ops);
                t
            };
            {
                let mut t = fresh(&ops);
                t.prepare_merge_ops(Some(&base));
                assert!(t.ops.iter().all(|o| matches!(o, BranchOp::Insert(..))), "prepare_merge_ops left a non-Insert op");
                assert!(native_expand(&base, &t.ops) == want, "prepare_merge_ops changed the entries (n={}, compressed={})", n, pc);
                cases += 1;
            }
            for idx in 0..ops.len() {
                {
                    let mut t = fresh(&ops);
                    let k = t.replace_with_insert(Some(&base), idx);
                    assert!(native_expand(&base, &t.ops) == want, "replace_with_insert({}) changed the entries (n={}, compressed={})", idx, n, pc);
                    assert!(t.ops[idx..idx + k].iter().all(|o| matches!(o, BranchOp::Insert(..))));
                    cases += 1;
                }
                if let BranchOp::KeepChunk(_) = ops[idx] {
                    {
                        let mut t = fresh(&ops);
                        t.extract_insert_from_keep_chunk(&base, idx);
                        assert!(native_expand(&base, &t.ops) == want, "extract_insert_from_keep_chunk({}) changed the entries (n={}, compressed={})", idx, n, pc);
                        cases += 1;
                    }
                    for target in [1usize, 16, 40, 80, 4000] {
                        let mut t = fresh(&ops);
                        let gauge = BranchGauge::default();
                        t.try_split_keep_chunk(&base, &gauge, idx, target, BRANCH_NODE_BODY_SIZE);
                        assert!(native_expand(&base, &t.ops) == want, "try_split_keep_chunk({}, target {}) changed the entries (n={}, compressed={})", idx, target, n, pc);
                        cases += 1;
                    }
                }
            }
        }
    }
    assert!(cases > 1000);
}

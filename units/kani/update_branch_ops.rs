//! Kani harnesses for nomt/src/beatree/ops/update/branch_ops.rs (compiled into the real crate only under cfg(kani)).
#![allow(unused_imports, dead_code)]
use super::*;

#[cfg(test)]
include!("/verif/.build/playback/update_branch_ops.inc");

// ---- BranchOpsTracker::push_chunk: bounded native enumeration -------------------------------------
// (run by `cargo kani playback`; the unbounded statement is the Verus unit v19_branch_ops)
#[cfg(test)]
fn native_key(prefix_byte: u8, i: usize) -> Key {
    let mut k = [0u8; 32];
    for x in k.iter_mut().take(8) {
        *x = prefix_byte;
    }
    k[8..10].copy_from_slice(&((i as u16 + 1) << 4).to_be_bytes());
    k
}

/// a base node of `n` separators of which the first `pc` are prefix-compressed
#[cfg(test)]
fn native_base(n: usize, pc: usize) -> BaseBranch {
    use crate::beatree::branch::{BranchNode, BranchNodeBuilder};
    let pool = crate::io::PagePool::new();
    let keys: Vec<Key> = (0..n).map(|i| native_key(if i < pc { 0x11 } else { 0xEE }, i)).collect();
    let prefix_len = if pc == 1 { separator_len(&keys[0]) } else { crate::beatree::ops::bit_ops::prefix_len(&keys[0], &keys[pc - 1]) };
    let mut builder = BranchNodeBuilder::new(BranchNode::new_in(&pool), n, pc, prefix_len);
    for (i, k) in keys.iter().enumerate() {
        builder.push(*k, separator_len(k), 100 + i as u32);
    }
    BaseBranch::new(std::sync::Arc::new(builder.finish()))
}

/// the (separator, page number) pairs an op list stands for
#[cfg(test)]
fn native_expand(base: &BaseBranch, ops: &[BranchOp]) -> Vec<(Key, u32)> {
    let mut out = Vec::new();
    for op in ops {
        match op {
            BranchOp::Insert(k, pn) => out.push((*k, pn.0)),
            BranchOp::Update(pos, pn) => out.push((base.key(*pos), pn.0)),
            BranchOp::KeepChunk(c) => {
                assert!(c.start < c.end, "empty or inverted KeepChunk {:?}", c);
                assert!(c.end <= base.node.prefix_compressed() as usize, "KeepChunk covers uncompressed separators {:?}", c);
                for i in c.start..c.end {
                    let (k, pn) = base.key_value(i);
                    out.push((k, pn.0));
                }
            }
        }
    }
    out
}

/// Bounded native enumeration (not a proof): every base node of 1..=7 separators, every split into
/// compressed head / uncompressed tail, every range start < end <= n: `push_chunk(base, start, end)`
/// appends ops that stand for exactly the base entries start..end, once each, in order, and every
/// KeepChunk is non-empty and inside the compressed part.
#[cfg(test)]
#[test]
fn native_enum_push_chunk_covers_exactly_the_range() {
    let mut cases = 0;
    for n in 1..=7usize {
        for pc in 1..=n {
            let base = native_base(n, pc);
            assert_eq!(base.node.prefix_compressed() as usize, pc);
            for start in 0..n {
                for end in start + 1..=n {
                    let r = std::panic::catch_unwind(std::panic::AssertUnwindSafe(|| {
                        let mut t = BranchOpsTracker::new();
                        t.push_chunk(&base, start, end);
                        native_expand(&base, &t.ops)
                    }));
                    let want: Vec<(Key, u32)> = (start..end).map(|i| { let (k, pn) = base.key_value(i); (k, pn.0) }).collect();
                    match r {
                        Ok(got) => assert!(got == want, "push_chunk(n={}, compressed={}, {}..{}) stands for {} entries, expected {}", n, pc, start, end, got.len(), want.len()),
                        Err(_) => panic!("push_chunk(n={}, compressed={}, {}..{}) panicked", n, pc, start, end),
                    }
                    cases += 1;
                }
            }
        }
    }
    assert!(cases > 400);
}

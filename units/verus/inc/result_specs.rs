// Specifications for std combinators on Result / Option that a refactoring of an error path is likely
// to reach for and that vstd does not cover: without them Verus stops with "not supported" (exit 2,
// no verdict); with them a combination that swallows an error fails the function's postcondition
// like any other dropped `?`.  (Assumed contracts on std; `and_then`, `unwrap_or_default` and the
// closure-taking combinators are still unsupported.)
pub assume_specification<T, E, F> [core::result::Result::<T, E>::or::<F>] (a: core::result::Result<T, E>, b: core::result::Result<T, F>) -> (r: core::result::Result<T, F>)
    ensures r == (match a { Ok(v) => Ok::<T, F>(v), Err(_) => b });
pub assume_specification<T, E, U> [core::result::Result::<T, E>::and::<U>] (a: core::result::Result<T, E>, b: core::result::Result<U, E>) -> (r: core::result::Result<U, E>)
    ensures r == (match a { Ok(_) => b, Err(e) => Err::<U, E>(e) });
pub assume_specification<T, E> [core::result::Result::<T, E>::unwrap_or] (a: core::result::Result<T, E>, default: T) -> (r: T)
    ensures r == (match a { Ok(v) => v, Err(_) => default });
pub assume_specification<T> [core::option::Option::<T>::or] (a: core::option::Option<T>, b: core::option::Option<T>) -> (r: core::option::Option<T>)
    ensures r == (match a { Some(v) => Some(v), None => b });

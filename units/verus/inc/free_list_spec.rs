// Shared ghost vocabulary of the free-list units (v6, v11): abstract stack view and shape invariant.
pub type Portions = Seq<(PageNumber, Vec<PageNumber>)>;

/// The abstract stack: all entries, bottom first; the next pop is the last element.
pub open spec fn flat(p: Portions) -> Seq<PageNumber>
    decreases p.len()
{
    if p.len() == 0 { Seq::empty() } else { flat(p.drop_last()) + p.last().1@ }
}

/// shape invariant of the portions (from the doc comment of `commit`): every portion is
/// non-empty and at most MAX; all portions below the head are full, except that in the
/// fragmented shape the head has exactly one entry and the page below it has MAX - 1.
pub open spec fn shape(p: Portions, fragmented: bool) -> bool {
    &&& forall|i: int| 0 <= i < p.len() ==> 1 <= (#[trigger] p[i]).1@.len() <= 1022
    &&& if fragmented {
            p.len() >= 2 && p[p.len() - 1].1@.len() == 1 && p[p.len() - 2].1@.len() == 1021
                && forall|i: int| 0 <= i < p.len() - 2 ==> (#[trigger] p[i]).1@.len() == 1022
        } else {
            forall|i: int| 0 <= i < p.len() - 1 ==> (#[trigger] p[i]).1@.len() == 1022
        }
}

pub open spec fn total(p: Portions) -> int
    decreases p.len()
{
    if p.len() == 0 { 0 } else { total(p.drop_last()) + p.last().1@.len() }
}

/// well-formedness of a FreeList value
pub open spec fn wf(fl: FreeList) -> bool {
    &&& shape(fl.portions@, fl.fragmented)
    &&& fl.len == total(fl.portions@)
}


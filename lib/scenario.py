"""Replay scenarios: integration tests against the real crate built from /repo's current tree."""
import os
import shutil
import subprocess

ROOT = os.path.dirname(os.path.dirname(os.path.abspath(__file__)))
REPO = os.environ.get("VERIF_REPO", "/repo")
SCEN = os.path.join(ROOT, "replay", "scenarios")


def run(test_name, timeout=1500):
    """-> (ok: True/False/None, log).  None = could not build/run."""
    env = dict(os.environ)
    env["CARGO_NET_OFFLINE"] = "true"
    env["CARGO_TARGET_DIR"] = os.path.join(ROOT, ".build", "scen")
    workdir = SCEN
    if os.path.realpath(REPO) != "/repo":
        # scenario crate depends on /repo/nomt by path; for a scratch tree make a patched copy
        workdir = os.path.join(ROOT, ".build", "scen-src")
        shutil.rmtree(workdir, ignore_errors=True)
        shutil.copytree(SCEN, workdir)
        p = os.path.join(workdir, "Cargo.toml")
        txt = open(p).read().replace('/repo/nomt', os.path.join(REPO, "nomt"))
        open(p, "w").write(txt)
    try:
        shutil.copy(os.path.join(REPO, "Cargo.lock"), os.path.join(workdir, "Cargo.lock"))
    except OSError:
        pass
    try:
        p = subprocess.run(["cargo", "test", "--offline", "--test", test_name], cwd=workdir, env=env,
                           stdout=subprocess.PIPE, stderr=subprocess.STDOUT, text=True, timeout=timeout)
    except subprocess.TimeoutExpired:
        return None, "scenario timed out"
    out = p.stdout
    if "test result: ok" in out and p.returncode == 0:
        return True, out
    if "test result: FAILED" in out:
        return False, out
    return None, out

"""Core of the /verif driver: run units, classify verdicts, write evidence and replay files."""
import concurrent.futures as cf
import hashlib
import json
import os
import re
import subprocess
import sys
import time

ROOT = os.path.dirname(os.path.dirname(os.path.abspath(__file__)))
sys.path.insert(0, os.path.join(ROOT, "vx"))
import vx  # noqa: E402

REPO = os.environ.get("VERIF_REPO", "/repo")
BUILD = os.path.join(ROOT, ".build")
VERUS_DIR = os.path.join(BUILD, "verus")
REPLAY_OUT = os.path.join(ROOT, "replay", "out")
BASELINE = os.path.join(ROOT, "baseline", "obligations.json")
KNOWN = os.path.join(ROOT, "known_findings.json")

# Verus messages that are a definite "this clause does not hold" verdict
VERUS_VIOLATION_MSGS = [
    r"precondition not satisfied", r"postcondition not satisfied", r"assertion failed",
    r"invariant not satisfied", r"possible arithmetic (under|over)flow", r"possible division by zero",
    r"possible bit shift", r"decreases not satisfied", r"cannot show (invariant|decreases)",
    r"unreachable", r"constructed value may fail to meet its declared type invariant",
    r"loop invariant not preserved", r"possible (under|over)flow",
]
VERUS_INCONCLUSIVE_MSGS = [r"[Rr]esource limit", r"rlimit", r"timed out", r"does not yet support", r"not supported",
                           r"unsupported", r"while loop: not all errors", ]


def sh(cmd, timeout=None, cwd=None, env=None):
    t0 = time.time()
    e = dict(os.environ)
    if env:
        e.update(env)
    try:
        p = subprocess.run(cmd, cwd=cwd, env=e, stdout=subprocess.PIPE, stderr=subprocess.PIPE, timeout=timeout,
                           text=True, errors="replace")
        return p.returncode, p.stdout, p.stderr, time.time() - t0, False
    except subprocess.TimeoutExpired as ex:
        def dec(b):
            return b.decode(errors="replace") if isinstance(b, bytes) else (b or "")
        return -9, dec(ex.stdout), dec(ex.stderr), time.time() - t0, True


def norm(s):
    return " ".join((s or "").split())


# ---------------------------------------------------------------------------------------------- Verus
def _regions(gen_text):
    """[(first_line, last_line, file, item)] of proved regions in generated text (1-based lines)."""
    regs = []
    cur = None
    for i, ln in enumerate(gen_text.split("\n"), 1):
        if ln.startswith("//@@begin "):
            _, rel, item = ln.split(" ", 2)
            cur = (i, rel, item)
        elif ln.startswith("//@@end") and cur:
            regs.append((cur[0], i, cur[1], cur[2]))
            cur = None
    return regs


def _scan_assumptions(gen_text, report):
    trusted = []
    regs = _regions(gen_text)
    lines = gen_text.split("\n")
    bad = []
    for (a, b, rel, item) in regs:
        chunk = "\n".join(lines[a:b])
        if re.search(r"\b(assume|admit)\s*\(", vx.blank_noncode(chunk)):
            bad.append(item)
    for it in report["items"]:
        if it["role"] == "stub":
            trusted.append("assumed contract (stub, body not verified): %s [%s:%d] %s" % (it["item"], it["file"], it["line"], norm(it["contract"]) or "(no contract: any result)"))
    code = vx.blank_noncode(gen_text)
    for m in re.finditer(r"(uninterp\s+spec\s+fn|axiom\s+fn|assume_specification|external_type_specification)\s*[\[\w]*\s*(\w*)", code):
        kind = norm(m.group(1))
        tail = gen_text[m.start():m.start() + 160].split("\n")[0]
        if kind == "external_type_specification":
            continue
        trusted.append("%s: %s" % (kind, norm(tail)))
    n_ext = len(re.findall(r"external_body", code))
    trusted.append("%d #[verifier::external_body] items in the generated file (stubs, opaque foreign types, opaque constants)" % n_ext)
    return trusted, bad


def _parse_verus_output(stdout, stderr):
    diags = []
    for ln in stderr.split("\n"):
        ln = ln.strip()
        if ln.startswith('{"$message_type"'):
            try:
                diags.append(json.loads(ln))
            except ValueError:
                pass
    summary = None
    # the --output-json blob is pretty-printed on stdout
    i = stdout.find("{")
    if i >= 0:
        try:
            summary = json.loads(stdout[i:])
        except ValueError:
            # diagnostics may be interleaved; find the last top-level object
            j = stdout.rfind("\n{\n")
            try:
                summary = json.loads(stdout[j + 1:]) if j >= 0 else None
            except ValueError:
                summary = None
    return diags, summary


def _classify_diags(diags, regs, gen_lines):
    """-> (failures: [{item,file,message,clause,site,line,sig}], inconclusive_reasons: [str])"""
    failures, inconc = [], []
    for d in diags:
        lvl = d.get("level")
        msg = d.get("message", "")
        if lvl not in ("error",):
            continue
        if msg.startswith("aborting due to"):
            continue
        spans = d.get("spans", [])
        if d.get("code"):
            inconc.append("rustc error %s: %s" % (d["code"].get("code"), msg))
            continue
        if any(re.search(p, msg) for p in VERUS_INCONCLUSIVE_MSGS):
            inconc.append("verifier limit: " + msg)
            continue
        if not any(re.search(p, msg) for p in VERUS_VIOLATION_MSGS):
            inconc.append("unclassified verifier error: " + msg)
            continue
        # which proved region does it belong to?
        owner = None
        site = clause = ""
        line = None
        for sp in spans:
            for (a, b, rel, item) in regs:
                if a <= sp["line_start"] <= b:
                    owner = (rel, item)
            txt = norm(" ".join(t["text"] for t in sp.get("text", [])))
            # strip vx markers for readability
            txt = txt.replace(vx.OPEN_MARK, "").replace(vx.CLOSE_MARK, "")
            lab = sp.get("label") or ""
            if "failed" in lab and ("precondition" in lab or "postcondition" in lab or "invariant" in lab):
                clause = txt
            elif sp.get("is_primary") and not site:
                site = txt
                line = sp["line_start"]
            elif not sp.get("is_primary") and "at the end of the function body" in lab:
                site = site or txt
        if not clause:
            for sp in spans:
                if sp.get("is_primary"):
                    txt = norm(" ".join(t["text"] for t in sp.get("text", [])))
                    if "postcondition" in msg or "invariant" in msg:
                        clause = txt
        if owner is None:
            inconc.append("verifier error outside any proved function (template lemma or stub): %s @ %s" % (msg, site or clause))
            continue
        sig = norm("%s | clause: %s | at: %s" % (msg, clause, site))
        failures.append({"file": owner[0], "item": owner[1], "message": msg, "clause": clause, "site": site,
                         "gen_line": line, "sig": sig, "rendered": d.get("rendered", "")})
    return failures, inconc


def run_verus_unit(name, spec, tier):
    t0 = time.time()
    os.makedirs(VERUS_DIR, exist_ok=True)
    tmpl = os.path.join(ROOT, spec["template"])
    res = {"unit": name, "backend": "verus", "status": "ok", "reason": "", "functions": [], "obligations": [],
           "trusted": [], "failures": [], "checker_cmd": "", "extraction": {}, "wall_s": 0.0, "verified_items": 0}
    try:
        gen, report = vx.generate(tmpl)
        twin, _ = vx.generate(tmpl, twin=True)
        fid = vx.verify_fidelity(gen, report)
    except vx.AnchorLost as e:
        res.update(status="inconclusive", reason="anchor lost: %s" % e)
        res["wall_s"] = time.time() - t0
        return res
    except Exception as e:  # template error: ours, not the repository's
        res.update(status="inconclusive", reason="extractor error: %r" % e)
        res["wall_s"] = time.time() - t0
        return res
    res["extraction"] = {"dropped": report["dropped"], "fidelity": fid}
    res["functions"] = [{k: it.get(k) for k in ("file", "item", "role", "line", "body_sha256", "sig_sha256", "sha256", "loc") if it.get(k) is not None} for it in report["items"]]
    if not all(f["identical_modulo_whitespace"] for f in fid):
        res.update(status="inconclusive", reason="fidelity check failed: generated text differs from /repo source for %s" % [f["item"] for f in fid if not f["identical_modulo_whitespace"]])
        return res
    trusted, bad = _scan_assumptions(gen, report)
    for it in report.get("termination_unchecked", []):
        trusted.append("termination of %s is not checked (#[verifier::exec_allows_no_decreases_clause]); partial correctness only" % it)
    res["trusted"] = trusted
    if bad:
        res.update(status="inconclusive", reason="assume/admit inside proved body: %s" % bad)
        return res
    proved = [it for it in report["items"] if it["role"] == "prove"]
    if not proved:
        res.update(status="inconclusive", reason="unit declares no proved function")
        return res
    main_path = os.path.join(VERUS_DIR, name + ".rs")
    twin_path = os.path.join(VERUS_DIR, name + "__twin.rs")
    open(main_path, "w").write(gen)
    open(twin_path, "w").write(twin)
    rlimit = str(spec.get("rlimit", 30))
    tmo = spec.get("timeout", 300)
    base_cmd = ["verus", "--error-format=json", "--output-json", "--time", "--rlimit", rlimit, "--multiple-errors", "10"]
    res["checker_cmd"] = "python3 vx/vx.py %s > %s && %s %s" % (spec["template"], os.path.relpath(main_path, ROOT), " ".join(base_cmd), os.path.relpath(main_path, ROOT))

    def run(path, extra=()):
        return sh(base_cmd + list(extra) + [os.path.basename(path)], timeout=tmo, cwd=VERUS_DIR)

    with cf.ThreadPoolExecutor(2) as ex:
        f_main = ex.submit(run, main_path)
        f_twin = ex.submit(run, twin_path)
        rc, out, err, secs, timed_out = f_main.result()
        trc, tout, terr, tsecs, ttimed = f_twin.result()
    regs = _regions(gen)
    glines = gen.split("\n")
    if timed_out:
        res.update(status="inconclusive", reason="verus timed out after %ds" % tmo)
        return res
    diags, summary = _parse_verus_output(out, err)
    if summary is None:
        res.update(status="inconclusive", reason="verus produced no result summary (rc=%d): %s" % (rc, norm(err)[-400:]))
        return res
    vr = summary.get("verification-results", {})
    res["verified_items"] = vr.get("verified", 0)
    res["smt_ms"] = summary.get("times-ms", {}).get("smt", {}).get("total") if isinstance(summary.get("times-ms", {}).get("smt"), dict) else None
    res["verus_total_ms"] = summary.get("times-ms", {}).get("total")
    failures, inconc = _classify_diags(diags, regs, glines)
    if vr.get("encountered-vir-error"):
        inconc.append("verus front end rejected the generated file (VIR error)")
    # flakiness: re-run failing units with other seeds
    if failures and not inconc:
        seeds = [1, 2, 3]
        with cf.ThreadPoolExecutor(4) as ex:
            futs = [ex.submit(run, main_path, ("--smt-option", "smt.random_seed=%d" % s)) for s in seeds]
            fexp = ex.submit(run, main_path, ("--expand-errors",))
            reruns = [f.result() for f in futs]
            erc, eout, eerr, _es, eto = fexp.result()
        if not eto:
            ed, _ = _parse_verus_output(eout, eerr)
            expanded = "".join(d.get("rendered", "") for d in ed if d.get("level") in ("error", "note"))[:6000]
            for f in failures:
                f["expanded"] = expanded
        still = None
        for (rrc, rout, rerr, _s, rto) in reruns:
            if rto:
                continue
            d2, s2 = _parse_verus_output(rout, rerr)
            f2, i2 = _classify_diags(d2, regs, glines)
            items2 = set(f["item"] for f in f2)
            still = items2 if still is None else (still & items2)
        if still is not None:
            flaky = [f for f in failures if f["item"] not in still]
            if flaky:
                inconc.append("flaky query (some seed discharges it): %s" % sorted(set(f["item"] for f in flaky)))
            failures = [f for f in failures if f["item"] in still]
    # thorough tier: a unit that verifies must also verify under three other Z3 seeds (stability)
    if tier == "thorough" and not failures and not inconc:
        with cf.ThreadPoolExecutor(3) as ex:
            futs = [ex.submit(run, main_path, ("--smt-option", "smt.random_seed=%d" % sd)) for sd in (11, 12, 13)]
            extra = [f.result() for f in futs]
        unstable = []
        for (rrc, rout, rerr, _s, rto) in extra:
            d2, s2 = _parse_verus_output(rout, rerr)
            f2, i2 = _classify_diags(d2, regs, glines)
            if rto or f2 or i2 or s2 is None:
                unstable.append(sorted(set(x["item"] for x in f2)) or "timeout/limit")
        res["stability_seeds"] = {"seeds": [11, 12, 13], "unstable": unstable}
        if unstable:
            inconc.append("unstable proof: fails under another Z3 seed (%s)" % unstable)
    failed_items = set(f["item"] for f in failures)
    # vacuity twin
    twin_failed_items = set()
    if not inconc:
        if ttimed:
            inconc.append("vacuity twin timed out")
        else:
            tdiags, tsum = _parse_verus_output(tout, terr)
            tregs = _regions(twin)
            tf, ti = _classify_diags(tdiags, tregs, twin.split("\n"))
            twin_failed_items = set(f["item"] for f in tf)
            for it in proved:
                if it["item"] not in twin_failed_items and it["item"] not in failed_items:
                    inconc.append("vacuity guard: `ensures false` twin of %s verifies (contradictory preconditions or stub axioms)" % it["item"])
    res["failures"] = failures
    for it in proved:
        oname = "verus:%s:%s" % (name, it["item"])
        if it["item"] in failed_items:
            verdict = "failed"
        elif inconc:
            verdict = "inconclusive"
        else:
            verdict = "discharged"
        res["obligations"].append({"name": oname, "backend": "verus/z3", "verdict": verdict, "complete": True,
                                   "function": "%s (%s:%d)" % (it["item"], it["file"], it["line"]),
                                   "contract": norm(it["contract"])[:1200],
                                   "vacuity_twin_fails": it["item"] in twin_failed_items})
    n_aux = max(0, res["verified_items"] - sum(1 for o in res["obligations"] if o["verdict"] == "discharged"))
    res["aux_items_verified"] = n_aux
    if failures:
        res["status"] = "failed"
    if inconc:
        # definite failures stay failures; other things are inconclusive
        res["reason"] = "; ".join(inconc)
        if not failures:
            res["status"] = "inconclusive"
    res["wall_s"] = time.time() - t0
    res["solver_s"] = secs
    return res


# ---------------------------------------------------------------------------------------------- Kani
from lib import kani  # noqa: E402


# ---------------------------------------------------------------------------------------------- property level
def load_json(path, default):
    try:
        return json.load(open(path))
    except (OSError, ValueError):
        return default


def known_findings():
    return load_json(KNOWN, {"open": [], "fixed": []})


def match_known(pid, unit, failure, kf):
    for ent in kf.get("open", []):
        if ent.get("property") != pid or ent.get("unit") != unit:
            continue
        if ent.get("item") and ent["item"] != failure.get("item"):
            continue
        if re.search(ent["match"], failure.get("sig", "")):
            return ent
    return None


def attributed(r, f):
    """properties a failing clause speaks about (None = every property the unit serves)."""
    from units import registry
    spec = (registry.VERUS if r["backend"] == "verus" else registry.KANI).get(r["unit"], {})
    # match on the failing clause itself (for postconditions the "site" is the whole body and would
    # match everything); asserts and preconditions without clause text fall back to the site
    text = f.get("clause") or f.get("site") or f.get("sig", "")
    if f.get("clause") and "precondition" in f.get("message", ""):
        # the failing clause and the call it guards (for a precondition the site is the call expression)
        text = f["clause"] + " @ " + (f.get("site") or "")
    for (rx, props) in spec.get("attribution", []):
        if re.search(rx, text):
            return props
    return None


def write_replay(pid, unit_res, failure, extra=None):
    os.makedirs(REPLAY_OUT, exist_ok=True)
    h = hashlib.sha256((unit_res["unit"] + failure.get("sig", "") + failure.get("item", "")).encode()).hexdigest()[:10]
    path = os.path.join(REPLAY_OUT, "%s-%s-%s.json" % (pid, unit_res["unit"], h))
    body = {"property": pid, "unit": unit_res["unit"], "backend": unit_res["backend"],
            "failed_obligation": "%s:%s:%s" % (unit_res["backend"], unit_res["unit"], failure.get("item")),
            "function": failure.get("item"), "source_file": failure.get("file"),
            "what_failed": failure.get("sig"), "verifier_output": failure.get("rendered", ""),
            "verifier_output_expanded": failure.get("expanded"),
            "checker_cmd": unit_res.get("checker_cmd"), "counterexample": failure.get("counterexample"),
            "replayed_on_real_code": failure.get("replayed", False), "replay_result": failure.get("replay_result")}
    if extra:
        body.update(extra)
    json.dump(body, open(path, "w"), indent=1)
    return path


def run_property(pid, tier, update_baseline=False, only_unit=None, write_evidence=True):
    from units import registry
    t0 = time.time()
    prop = registry.PROPERTIES.get(pid)
    if prop is None:
        print("property %s is not claimed (see MANIFEST.json not_applicable)" % pid)
        return 2
    seed = int(os.environ.get("VERIF_SEED", "0") or 0)
    units = []
    for u in prop.get("verus", []):
        if only_unit and u != only_unit:
            continue
        units.append(("verus", u, registry.VERUS[u]))
    kani_groups = []
    for g in prop.get("kani", []):
        if only_unit and g != only_unit:
            continue
        spec = registry.KANI[g]
        if spec.get("tier", "quick") == "thorough" and tier != "thorough":
            continue
        kani_groups.append((g, spec))
    results = []
    with cf.ThreadPoolExecutor(max(1, min(6, len(units)))) as ex:
        futs = [ex.submit(run_verus_unit, u, spec, tier) for (_, u, spec) in units]
        kres = kani.run_groups(kani_groups, tier, pid) if kani_groups else []
        results = [f.result() for f in futs] + kres

    baseline = load_json(BASELINE, {})
    base_set = set(baseline.get(pid, []))
    kf = known_findings()
    violations, known_lines, inconclusive = [], [], []
    discharged = []
    for r in results:
        for o in r["obligations"]:
            if o["verdict"] == "discharged":
                discharged.append(o["name"])
        if r["status"] == "inconclusive" or (r["reason"] and r["status"] != "failed"):
            inconclusive.append("%s: %s" % (r["unit"], r["reason"]))
        elif r["status"] == "failed" and r["reason"]:
            inconclusive.append("%s: %s" % (r["unit"], r["reason"]))
        seen = set()
        elsewhere = {}
        here_items = set()
        for f in r.get("failures", []):
            oname = "%s:%s:%s" % (r["backend"], r["unit"], f["item"])
            props = attributed(r, f)
            if props is not None and pid not in props:
                elsewhere.setdefault(f["item"], []).append("%s -> %s" % (f["sig"][:160], ",".join(props)))
                continue
            here_items.add(f["item"])
            ent = match_known(pid, r["unit"], f, kf)
            if ent:
                key = ent["id"]
                if key not in seen:
                    known_lines.append("KNOWN-FINDING: property=%s %s" % (pid, ent["what_fails"]))
                    seen.add(key)
                f["known_finding"] = ent["id"]
                continue
            if not update_baseline and oname not in base_set:
                inconclusive.append("%s: obligation %s fails but is not in the baseline of obligations verified on the pinned tree (%s)" % (r["unit"], oname, f["sig"][:200]))
                continue
            violations.append((r, f))
        # a function whose only failing clauses belong to other properties is discharged for this one
        for o in r["obligations"]:
            item = o["name"].split(":", 2)[2]
            if o["verdict"] == "failed" and item in elsewhere and item not in here_items:
                o["verdict"] = "discharged"
                o["note"] = "clauses attributed to other properties fail (reported by their checks): %s" % elsewhere[item][:3]
                discharged.append(o["name"])
                print("NOTE property=%s %s fails only clauses attributed to other properties: %s" % (pid, o["name"], elsewhere[item][:2]))

    if update_baseline:
        baseline[pid] = sorted(set(discharged) | (base_set if only_unit else set()))
        os.makedirs(os.path.dirname(BASELINE), exist_ok=True)
        json.dump(baseline, open(BASELINE, "w"), indent=1, sort_keys=True)

    # obligations that were in the baseline must still exist (else the unit lost them)
    if not only_unit:
        all_names = set(o["name"] for r in results for o in r["obligations"])
        thorough_only = set()
        for g, spec in [(g, registry.KANI[g]) for g in prop.get("kani", [])]:
            if spec.get("tier", "quick") == "thorough" and tier != "thorough":
                thorough_only.update("kani:%s:%s" % (g, h if isinstance(h, str) else h["name"]) for h in spec["harnesses"])
        missing = [n for n in base_set if n not in all_names and n not in thorough_only]
        if missing and not update_baseline:
            inconclusive.append("baseline obligations not produced by this run: %s" % missing[:5])

    for ln in known_lines:
        print(ln)
    rc = 0
    viol_paths = []
    if violations:
        rc = 1
        for (r, f) in violations:
            extra = {}
            if r["backend"] == "verus":
                extra = replay_for_verus(pid, r, f)
            path = write_replay(pid, r, f, extra)
            tail = "" if f.get("replayed") or extra.get("replayed_on_real_code") else " no-failing-input-found"
            print("VIOLATION property=%s replay=%s%s" % (pid, path, tail))
            print("  obligation %s:%s:%s failed: %s" % (r["backend"], r["unit"], f["item"], f["sig"][:300]))
            viol_paths.append(path)
    elif inconclusive:
        rc = 2
        for msg in inconclusive:
            print("INCONCLUSIVE property=%s reason=%s" % (pid, msg[:600]))
    if tier == "thorough" and not only_unit and rc == 0 and os.path.realpath(REPO) == "/repo":
        from lib import selftest
        mism, ran = selftest.run_for_property(pid)
        if mism:
            rc = 2
            print("INCONCLUSIVE property=%s reason=self-test of the machinery: %d of %d catalogued source changes did not give the expected verdict" % (pid, mism, ran))
            inconclusive.append("selftest mismatches: %d of %d" % (mism, ran))
        else:
            print("selftest: %d catalogued source changes for %s gave the expected verdicts" % (ran, pid))
    wall = time.time() - t0
    if write_evidence and not only_unit:
        from lib import evidence
        evidence.write(pid, tier, seed, results, rc, wall, known_lines, inconclusive, viol_paths)
    n_obl = sum(len(r["obligations"]) for r in results)
    n_dis = len(discharged)
    print("%s tier=%s: %d/%d obligations discharged over %d units in %.1fs -> exit %d" % (pid, tier, n_dis, n_obl, len(results), wall, rc))
    return rc


def replay_for_verus(pid, r, f):
    """Run the unit's replay scenario (a test against the real crate) if it has one."""
    from units import registry
    spec = registry.VERUS.get(r["unit"], {})
    scen = None
    for (rx, name) in spec.get("scenarios_by_clause", []):
        if re.search(rx, f.get("sig", "")):
            scen = name
    scen = scen or spec.get("scenarios", {}).get(f["item"]) or spec.get("scenario")
    pb = spec.get("playback_scenarios", {}).get(f["item"])
    if pb and not scen:
        crate, test = pb
        kani.ensure_playback_files()
        rc, out, secs, to = kani._run(["cargo", "kani", "playback", "-Z", "concrete-playback", "--", test],
                                      os.path.join(REPO, kani.CRATE_DIR[crate]), 2400)
        if "test result: FAILED" in out and test in out:
            f["replayed"] = True
            return {"replayed_on_real_code": True, "replay_result": "native scenario %s (cargo kani playback, real I/O) FAILS on the current tree" % test, "scenario_log": out[-3000:]}
        ok = ("test %s" % test) in out.replace("verif_kani::", "") or test in out
        return {"replayed_on_real_code": False, "replay_result": "native scenario %s %s" % (test, "passes (no failing input found)" if "test result: ok" in out and ok else "could not be built/run"), "scenario_log": out[-2000:]}
    if not scen:
        return {"replayed_on_real_code": False, "replay_result": "no replay scenario exists for this obligation (no observable without power loss / fault injection)"}
    from lib import scenario
    ok, log = scenario.run(scen)
    if ok is False:
        f["replayed"] = True
        return {"replayed_on_real_code": True, "replay_result": "scenario %s FAILS on the real crate built from the current tree" % scen, "scenario_log": log[-4000:]}
    return {"replayed_on_real_code": False, "replay_result": "scenario %s %s" % (scen, "passes (no failing input found)" if ok else "could not be built/run"), "scenario_log": log[-2000:]}


def replay(pid, path):
    """./check <pid> --replay <file>: re-run the failed obligation named in a replay file."""
    body = load_json(path, None)
    if body is None:
        print("cannot read replay file", path)
        return 2
    print(json.dumps({k: body.get(k) for k in ("property", "failed_obligation", "function", "what_failed", "counterexample", "replay_result")}, indent=1))
    unit = body.get("unit")
    rc = run_property(pid, "quick", only_unit=unit, write_evidence=False)
    return rc

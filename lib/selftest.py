"""./check selftest: apply each catalogued source change to a scratch copy of the sources and run the
unit that should (or should not) notice it.  expect 1 = the check must exit 1 (VIOLATION),
expect 0 = the check must stay green (harmless edit).  Verus units only read nomt/src and core/src,
so the scratch copy is small; it is deleted at the end."""
import json
import os
import shutil
import subprocess
import sys
import tempfile

ROOT = os.path.dirname(os.path.dirname(os.path.abspath(__file__)))


def run_for_property(pid):
    """-> (mismatches, entries run) for the catalogue entries of one property (quiet)."""
    import io, contextlib
    buf = io.StringIO()
    with contextlib.redirect_stdout(buf):
        rc = run("quick", only_property=pid)
    out = buf.getvalue()
    ran = out.count("SELFTEST ") - out.count(" SKIP ")
    return out.count("MISMATCH"), ran


def run(tier, only_property=None):
    cat = json.load(open(os.path.join(ROOT, "selftest", "catalogue.json")))
    if only_property:
        cat = [e for e in cat if e["property"] == only_property]
    scratch = tempfile.mkdtemp(prefix="verif-selftest-")
    bad = 0
    try:
        for sub in ("nomt/src", "core/src"):
            shutil.copytree(os.path.join("/repo", sub), os.path.join(scratch, sub))
        for ent in cat:
            path = os.path.join(scratch, ent["file"])
            orig = open(path).read()
            txt = orig
            if "find_all" in ent:
                if ent["find_all"] not in txt:
                    print("SELFTEST %-40s SKIP (pattern gone)" % ent["id"])
                    continue
                txt = txt.replace(ent["find_all"], ent["replace"])
            else:
                if txt.count(ent["find"]) != 1:
                    print("SELFTEST %-40s SKIP (pattern matches %d times)" % (ent["id"], txt.count(ent["find"])))
                    continue
                if "also_remove" in ent:
                    if txt.count(ent["also_remove"]) != 1:
                        print("SELFTEST %-40s SKIP (second pattern gone)" % ent["id"])
                        continue
                    txt = txt.replace(ent["also_remove"], ent["also_insert"])
                txt = txt.replace(ent["find"], ent["replace"])
            open(path, "w").write(txt)
            env = dict(os.environ)
            env["VERIF_REPO"] = scratch
            p = subprocess.run([os.path.join(ROOT, "check"), ent["property"], "--unit", ent["unit"], "--no-evidence"],
                               env=env, stdout=subprocess.PIPE, stderr=subprocess.STDOUT, text=True)
            open(path, "w").write(orig)
            ok = p.returncode == ent["expect"]
            print("SELFTEST %-40s %s (exit %d, expected %d)" % (ent["id"], "ok" if ok else "MISMATCH", p.returncode, ent["expect"]))
            if not ok:
                bad += 1
                print("\n".join("    " + l[:200] for l in p.stdout.split("\n")[:6]))
    finally:
        shutil.rmtree(scratch, ignore_errors=True)
    print("selftest: %d entries, %d mismatches" % (len(cat), bad))
    return 0 if bad == 0 else 3

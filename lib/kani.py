def run_groups(groups, tier, pid):
    return []

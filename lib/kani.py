"""Kani back end: run harnesses that are compiled into the real crates under cfg(kani).

A group (units/registry.py KANI) names harnesses of one crate.  Verdict per harness:
  discharged    VERIFICATION:- SUCCESSFUL and every kani::cover! SATISFIED (reachability guard)
  failed        a check other than an unwinding assertion / unsupported construct fails
  inconclusive  timeout, out of memory, unwinding assertion, unsupported construct, unreachable cover
A failed harness is re-run with --concrete-playback=print; the generated unit test is written to
.build/playback/<module>.inc (included by the harness module under cfg(test)) and executed against
the real crate with `cargo kani playback`.
"""
import glob
import os
import re
import subprocess
import time

ROOT = os.path.dirname(os.path.dirname(os.path.abspath(__file__)))
REPO = os.environ.get("VERIF_REPO", "/repo")
BUILD = os.path.join(ROOT, ".build")
PLAYBACK = os.path.join(BUILD, "playback")
CRATE_DIR = {"nomt": "nomt", "nomt-core": "core"}
JOBS = int(os.environ.get("VERIF_KANI_JOBS", "8"))

INCONCLUSIVE_CHECK = [r"unwinding assertion", r"not currently supported by Kani", r"is not supported", r"unsupported",
                      r"recursion unwinding", r"Kani does not support", r"reachability check"]


def ensure_playback_files():
    os.makedirs(PLAYBACK, exist_ok=True)
    for f in glob.glob(os.path.join(ROOT, "units", "kani", "*.rs")):
        inc = os.path.join(PLAYBACK, os.path.basename(f)[:-3] + ".inc")
        if not os.path.exists(inc):
            open(inc, "w").write("")


def target_dir():
    if os.path.realpath(REPO) == "/repo":
        return os.path.join(BUILD, "kani")
    return os.path.join(BUILD, "kani-scratch")


def _env():
    e = dict(os.environ)
    e["CARGO_NET_OFFLINE"] = "true"
    e["CARGO_TARGET_DIR"] = target_dir()
    # background threads of the code under test may panic on shutdown (e.g. a warm-up worker whose
    # session was dropped); their backtraces would interleave with libtest's "test ... ok" lines
    e["RUST_BACKTRACE"] = "0"
    return e


MEM_LIMIT_GB = int(os.environ.get("VERIF_KANI_MEM_GB", "14"))


def _limits():
    import resource
    # per-process address-space cap (inherited by every cbmc): out-of-memory becomes "inconclusive"
    lim = MEM_LIMIT_GB * 1024 * 1024 * 1024
    resource.setrlimit(resource.RLIMIT_AS, (lim, lim))


def _run(cmd, cwd, timeout):
    """Run in its own process group, so that on a timeout the whole tree (cargo, the test binary of a
    native enumeration that spins forever on a broken tree, cbmc) is killed, not just the direct child."""
    import signal
    t0 = time.time()
    p = subprocess.Popen(cmd, cwd=cwd, env=_env(), stdout=subprocess.PIPE, stderr=subprocess.STDOUT, text=True,
                         errors="replace", preexec_fn=_limits, start_new_session=True)
    try:
        out, _ = p.communicate(timeout=timeout)
        return p.returncode, out, time.time() - t0, False
    except subprocess.TimeoutExpired:
        try:
            os.killpg(p.pid, signal.SIGKILL)
        except ProcessLookupError:
            pass
        try:
            out, _ = p.communicate(timeout=30)
        except Exception:
            out = ""
        return -9, out or "", time.time() - t0, True


def hname(h):
    return h if isinstance(h, str) else h["name"]


def parse_blocks(out):
    """{harness_full_name: block_text}.  With -j, lines are `Thread k: ...`; the unprefixed lines that
    follow belong to the same thread's current harness."""
    blocks = {}
    cur_thread = None
    cur_harness = {}  # thread -> harness
    for ln in out.split("\n"):
        m = re.match(r"^Thread (\d+): (.*)$", ln)
        if m:
            cur_thread = m.group(1)
            ln = m.group(2)
        mh = re.match(r"^Checking harness (\S+?)\.\.\.\s*$", ln)
        if mh:
            cur_harness[cur_thread] = mh.group(1)
            blocks.setdefault(mh.group(1), "")
            continue
        h = cur_harness.get(cur_thread)
        if h is not None:
            blocks[h] += ln + "\n"
    return blocks


def classify(block):
    """-> (verdict, detail, failed_checks[], stats)"""
    stats = {}
    m = re.search(r"\*\* (\d+) of (\d+) failed", block)
    if m:
        stats["checks_failed"], stats["checks"] = int(m.group(1)), int(m.group(2))
    mc = re.search(r"\*\* (\d+) of (\d+) cover properties satisfied", block)
    if mc:
        stats["covers_sat"], stats["covers"] = int(mc.group(1)), int(mc.group(2))
    mt = re.search(r"Verification Time: ([0-9.]+)s", block)
    if mt:
        stats["seconds"] = float(mt.group(1))
    failed = []
    for fm in re.finditer(r"Failed Checks: (.*)\n\s*File: \"([^\"]*)\", line (\d+), in (\S+)", block):
        failed.append({"desc": fm.group(1).strip(), "file": fm.group(2), "line": int(fm.group(3)), "func": fm.group(4)})
    if "VERIFICATION:- SUCCESSFUL" in block:
        if mc and int(mc.group(1)) < int(mc.group(2)):
            return "inconclusive", "a kani::cover! is unreachable (harness precondition too strong: vacuity guard)", failed, stats
        if not mc:
            return "inconclusive", "harness has no cover property (vacuity guard missing)", failed, stats
        return "discharged", "", failed, stats
    if "VERIFICATION:- FAILED" in block:
        real = [f for f in failed if not any(re.search(p, f["desc"]) for p in INCONCLUSIVE_CHECK)]
        if not failed:
            # failed without listed checks (e.g. only unsupported constructs reachable)
            return "inconclusive", "verification failed without a listed failed check", failed, stats
        if not real:
            return "inconclusive", "only unwinding/unsupported-construct checks failed: %s" % [f["desc"][:80] for f in failed[:3]], failed, stats
        # a failing unwinding assertion together with other failures: the others may be artefacts
        if len(real) < len(failed) and any(re.search(r"unwinding assertion", f["desc"]) for f in failed):
            return "inconclusive", "unwinding assertion failed together with %d other checks" % len(real), failed, stats
        return "failed", "", real, stats
    if re.search(r"CBMC timed out|timed out|Timeout", block):
        return "inconclusive", "harness timed out", failed, stats
    if re.search(r"out of memory|memory exhausted|Killed|SIGKILL", block):
        return "inconclusive", "CBMC ran out of memory", failed, stats
    return "inconclusive", "no verdict in Kani output", failed, stats


def kani_cmd(crate, harnesses, flags, unwindset, harness_timeout, jobs, playback=False):
    cmd = ["cargo", "kani", "-Z", "function-contracts", "-Z", "stubbing", "-Z", "unstable-options",
           "--output-format", "terse", "--exact"]
    if playback:
        cmd += ["-Z", "concrete-playback", "--concrete-playback=print"]
    else:
        cmd += ["-j", str(jobs)]
    if harness_timeout:
        cmd += ["--harness-timeout", "%ds" % harness_timeout]
    cmd += list(flags)
    for h in harnesses:
        cmd += ["--harness", h]
    if unwindset:
        cmd += ["--cbmc-args", "--unwindset", ",".join(unwindset)]
    return cmd


def do_playback(crate, full_name, module_file, flags, unwindset, harness_timeout):
    """-> (counterexample_text, replayed_bool, log)"""
    cwd = os.path.join(REPO, CRATE_DIR[crate])
    cmd = kani_cmd(crate, [full_name], flags, unwindset, harness_timeout, 1, playback=True)
    rc, out, secs, to = _run(cmd, cwd, (harness_timeout or 600) + 600)
    tests = re.findall(r"```\n(.*?)```", out, re.S)
    if not tests:
        return None, False, "no concrete playback test was produced\n" + out[-1500:]
    inc = os.path.join(PLAYBACK, os.path.basename(module_file)[:-3] + ".inc")
    # keep the first test per distinct check
    test = tests[0]
    tname = re.search(r"fn (kani_concrete_playback_\w+)", test).group(1)
    open(inc, "w").write(test)
    try:
        rc2, out2, secs2, to2 = _run(["cargo", "kani", "playback", "-Z", "concrete-playback", "--", tname], cwd, 1800)
    finally:
        open(inc, "w").write("")
    replayed = ("test result: FAILED" in out2) and (tname in out2)
    return test, replayed, out2[-3000:]


def run_groups(groups, tier, pid):
    """groups: [(name, spec)] -> list of unit results (same shape as core.run_verus_unit)."""
    ensure_playback_files()
    results = {}
    # split by (crate, flags, unwindset) so one cargo kani invocation serves many harnesses
    batches = {}
    for (g, spec) in groups:
        key = (spec["crate"], tuple(spec.get("flags", [])), tuple(spec.get("unwindset", [])))
        batches.setdefault(key, []).append((g, spec))
        results[g] = {"unit": g, "backend": "kani", "status": "ok", "reason": "", "functions": [], "obligations": [],
                      "trusted": list(spec.get("trusted", [])), "failures": [], "checker_cmd": "", "wall_s": 0.0,
                      "solver_s": 0.0}
        for (f, item) in spec.get("functions", []):
            results[g]["functions"].append({"file": f, "item": item, "role": "harnessed (real code, compiled by cargo kani)"})
    # bounded native enumerations (ordinary debug build of the real crate, run by cargo kani playback)
    for (g, spec) in groups:
        for h in spec["harnesses"]:
            if not (isinstance(h, dict) and h.get("native")):
                continue
            if h.get("tier") == "thorough" and tier != "thorough":
                continue
            r = results[g]
            cwd = os.path.join(REPO, CRATE_DIR[spec["crate"]])
            cmd = ["cargo", "kani", "playback", "-Z", "concrete-playback", "--", h["name"]]
            rc, out, secs, to = _run(cmd, cwd, h.get("timeout", 1800))
            r["checker_cmd"] = (r["checker_cmd"] + " ;; " if r["checker_cmd"] else "") + "(cd %s && %s)" % (cwd, " ".join(cmd))
            r["wall_s"] += secs
            ob = {"name": "kani:%s:%s" % (g, h["name"]), "backend": "native enumeration of the real function (cargo kani playback build, no solver)",
                  "complete": False, "bound": h.get("bound"), "function": h.get("about", ""), "contract": h.get("contract", "")}
            mcalls = re.search(r"(\d+) calls", out)
            if mcalls:
                ob["cases_enumerated"] = int(mcalls.group(1))
            if re.search(r"test \S*%s \.\.\. ok" % re.escape(h["name"]), out) or (
                    re.search(r"test \S*%s \.\.\. " % re.escape(h["name"]), out) and re.search(r"test result: ok\. 1 passed; 0 failed", out)):
                ob["verdict"] = "discharged"
            elif re.search(r"test \S*%s \.\.\. FAILED" % re.escape(h["name"]), out):
                ob["verdict"] = "failed"
                # the enumeration's own assertion (raised in the harness module) rather than a secondary
                # panic of some worker thread of the code under test
                msg = re.search(r"panicked at /verif/units/kani/[^\n]*\n([^\n]*)", out) or re.search(r"panicked at [^\n]*\n([^\n]*)", out)
                r["failures"].append({"item": h["name"], "file": spec["module_file"], "message": "native enumeration failed",
                                      "sig": "native enumeration %s: %s" % (h["name"], (msg.group(1) if msg else "test failed")[:400]),
                                      "rendered": out[-3000:], "counterexample": (msg.group(1) if msg else None), "replayed": True,
                                      "replay_result": "the failing case was executed on the real crate (native build): it panics / violates the assertion"})
                r["status"] = "failed"
            else:
                ob["verdict"] = "inconclusive"
                r["reason"] = (r["reason"] + "; " if r["reason"] else "") + "%s: native test could not be built or run (%s)" % (h["name"], " ".join(re.findall(r"error(?:\[E\d+\])?: [^\n]*", out)[:2]) or "timeout=%s" % to)
                if r["status"] == "ok":
                    r["status"] = "inconclusive"
            r["obligations"].append(ob)
    for (crate, flags, unwindset), members in batches.items():
        cwd = os.path.join(REPO, CRATE_DIR[crate])
        names = []
        tmo = 0
        for (g, spec) in members:
            for h in spec["harnesses"]:
                if isinstance(h, dict) and h.get("tier") == "thorough" and tier != "thorough":
                    continue
                if isinstance(h, dict) and h.get("native"):
                    continue
                names.append(spec["module"] + "::" + hname(h))
            tmo = max(tmo, spec.get("harness_timeout", 600))
        if not names:
            continue
        cmd = kani_cmd(crate, names, flags, unwindset, tmo, min(JOBS, len(names)))
        waves = (len(names) + JOBS - 1) // JOBS
        rc, out, secs, timed_out = _run(cmd, cwd, 900 + tmo * waves + 120)
        blocks = parse_blocks(out)
        compile_failed = ("error: could not compile" in out or "error[E" in out) and not blocks
        for (g, spec) in members:
            r = results[g]
            r["checker_cmd"] = "(cd %s && CARGO_NET_OFFLINE=true CARGO_TARGET_DIR=%s %s)" % (cwd, target_dir(), " ".join(cmd))
            r["wall_s"] = secs
            reasons = []
            for h in spec["harnesses"]:
                if isinstance(h, dict) and h.get("tier") == "thorough" and tier != "thorough":
                    continue
                if isinstance(h, dict) and h.get("native"):
                    continue
                short = hname(h)
                full = spec["module"] + "::" + short
                hb = h if isinstance(h, dict) else {}
                complete = hb.get("complete", spec.get("complete", False))
                bound = hb.get("bound", spec.get("bound"))
                ob = {"name": "kani:%s:%s" % (g, short), "backend": "kani/cbmc", "complete": bool(complete), "bound": bound,
                      "function": hb.get("about", spec.get("about", "")), "contract": hb.get("contract", "")}
                if compile_failed:
                    ob["verdict"] = "inconclusive"
                    reasons.append("crate does not compile under cargo kani (code changed shape under the harness): %s" % " ".join(re.findall(r"error(?:\[E\d+\])?: .*", out)[:3]))
                elif full not in blocks:
                    ob["verdict"] = "inconclusive"
                    reasons.append("%s: no result (timeout=%s rc=%s)" % (short, timed_out, rc))
                else:
                    verdict, detail, failed, stats = classify(blocks[full])
                    ob["verdict"] = verdict
                    ob.update(stats)
                    r["solver_s"] += stats.get("seconds", 0.0)
                    if verdict == "inconclusive":
                        reasons.append("%s: %s" % (short, detail))
                    elif verdict == "failed":
                        desc = "; ".join("%s @ %s:%d (%s)" % (f["desc"], os.path.relpath(f["file"], REPO) if f["file"].startswith(REPO) else f["file"], f["line"], f["func"]) for f in failed[:6])
                        sig = "harness %s: %s" % (short, desc)
                        ce, replayed, plog = do_playback(crate, full, spec["module_file"], flags, unwindset, tmo)
                        r["failures"].append({"item": short, "file": spec["module_file"], "message": "Kani check failed", "sig": sig,
                                              "rendered": blocks[full][-3000:], "counterexample": ce, "replayed": replayed,
                                              "replay_result": ("counterexample replayed on the real crate (cargo kani playback): test fails" if replayed else "counterexample did not reproduce natively / none produced") + "\n" + plog[-1500:],
                                              "failed_checks": failed})
                r["obligations"].append(ob)
            if r["failures"]:
                r["status"] = "failed"
            if reasons:
                r["reason"] = (r["reason"] + "; " if r["reason"] else "") + "; ".join(reasons)
                if not r["failures"]:
                    r["status"] = "inconclusive"
    return [results[g] for (g, _) in groups]

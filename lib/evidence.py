"""Evidence writer: /verif/evidence/<id>.json per EVIDENCE.schema.json, from what this run measured."""
import json
import os

ROOT = os.path.dirname(os.path.dirname(os.path.abspath(__file__)))

FIXED_TRUSTED = [
    "Verus 0.2026.09.13 (VIR/AIR encoding), Z3; Kani 0.68 / CBMC 6.11 / kissat-cadical; rustc",
    "machine integers: both tools model Rust's fixed-width integers exactly (overflow is an obligation, not assumed away)",
    "stubs (#[verifier::external_body] with an assumed contract) are assumptions; each is listed above with its contract",
    "uninterpreted ghost predicates (durable/committed/authorised...) carry assumed meanings; they are never asserted negatively, so they cannot contradict",
]


def write(pid, tier, seed, results, rc, wall, known_lines, inconclusive, viol_paths):
    from units import registry
    prop = registry.PROPERTIES[pid]
    obligations = []
    functions = []
    trusted = []
    cmds = []
    bounded = []
    aux = 0
    solver_s = 0.0
    for r in results:
        for o in r["obligations"]:
            oo = dict(o)
            oo["unit"] = r["unit"]
            obligations.append(oo)
            if not o.get("complete", True):
                bounded.append({"name": o["name"], "bound": o.get("bound"), "verdict": o["verdict"]})
        for f in r.get("functions", []):
            ff = dict(f)
            ff["unit"] = r["unit"]
            ff["backend"] = r["backend"]
            functions.append(ff)
        for t in r.get("trusted", []):
            s = "[%s] %s" % (r["unit"], t)
            if s not in trusted:
                trusted.append(s)
        if r.get("checker_cmd"):
            cmds.append(r["checker_cmd"])
        aux += r.get("aux_items_verified", 0)
        solver_s += r.get("solver_s", 0.0) or 0.0
    unbounded = [o for o in obligations if o.get("complete", True)]
    n_obl = len(obligations)
    n_dis = sum(1 for o in obligations if o["verdict"] == "discharged")
    level = prop.get("level", "proof")
    samples = []
    for o in obligations[:6]:
        samples.append({"obligation": o["name"], "function": o.get("function"), "contract": o.get("contract"),
                        "verdict": o["verdict"], "complete": o.get("complete", True), "bound": o.get("bound")})
    if level == "proof":
        # bounded stand-ins are never counted as proved: the proof-level counts are the unbounded core
        n_obl_rep = len(unbounded)
        n_dis_rep = sum(1 for o in unbounded if o["verdict"] == "discharged")
    else:
        n_obl_rep, n_dis_rep = n_obl, n_dis
    coverage = {
        "obligations": n_obl_rep,
        "discharged": n_dis_rep,
        "counting_rule": "level proof: obligations/discharged count only unbounded (complete) obligations; bounded stand-ins are listed in bounded_obligations with their bounds and are not counted as proved",
        "bounded_total": len(bounded),
        "bounded_discharged": sum(1 for b in bounded if b["verdict"] == "discharged"),
        "checker_cmd": " ;; ".join(cmds) if cmds else "none",
        "trusted_base": trusted + FIXED_TRUSTED,
        "samples": samples,
        "evaluations": n_obl,
        "distinct_nontrivial": n_dis,
        "rule": "one evaluation = one named proof obligation (a real function proved against its contract by Verus, or one Kani harness over symbolic inputs); non-trivial = discharged AND its reachability/vacuity guard passed (Verus: the `ensures false` twin fails; Kani: the final cover is SATISFIED)",
        "unbounded_obligations": len(unbounded),
        "unbounded_discharged": sum(1 for o in unbounded if o["verdict"] == "discharged"),
        "bounded_obligations": bounded,
        "auxiliary_lemmas_verified": aux,
        "functions_under_contract": functions,
        "obligation_list": obligations,
        "extraction": [{"unit": r["unit"], **r.get("extraction", {})} for r in results if r.get("extraction")],
        "solver_seconds": round(solver_s, 2),
        "inconclusive": inconclusive,
        "known_findings_reported": known_lines,
        "violation_replays": viol_paths,
        "exit_code": rc,
        "explanation": prop.get("explanation") or (prop.get("level_text", "") + " Trusted base and bounds: see trusted_base and bounded_obligations."),
    }
    ev = {
        "property_id": pid,
        "tier": tier,
        "seed": seed,
        "level": level,
        "coverage": coverage,
        "assumptions": prop.get("assumptions", []) + ["every entry of coverage.trusted_base"],
        "wall_s": round(wall, 2),
        "violations": len(viol_paths),
    }
    os.makedirs(os.path.join(ROOT, "evidence"), exist_ok=True)
    json.dump(ev, open(os.path.join(ROOT, "evidence", pid + ".json"), "w"), indent=1)
